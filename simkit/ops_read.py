"""Read operations: traversal (C06) and read-only calls that take user
callbacks or write to a stream (C13 fault sites)."""
from __future__ import annotations

import warnings

from . import store as S
from .data import encode_value
from .model import MNode, order
from .ops import EXCLUDED, OK, SKIP, Plan, handler, tree_of
from .world import InjectedFault, Violation, World

ITER_METHODS = ("pre", "post", "level", "level_rtl", "zigzag", "zigzag_rtl")
VISIT_METHODS = ("pre", "post", "level")


def _iter_method(w: World, name: str):
    IM = w.nt.IterMethod
    return {"pre": IM.PRE_ORDER, "post": IM.POST_ORDER, "level": IM.LEVEL_ORDER,
            "level_rtl": IM.LEVEL_ORDER_RTL, "zigzag": IM.ZIGZAG, "zigzag_rtl": IM.ZIGZAG_RTL,
            "random": IM.RANDOM_ORDER, "unordered": IM.UNORDERED}[name]


class SimRandom:
    """Seeded stand-in for the `random` module object seen by nutree.tree."""

    def __init__(self, seed):
        import random as _r

        self._r = _r.Random(seed)
        self.calls = 0

    def shuffle(self, x):
        self.calls += 1
        return self._r.shuffle(x)

    def choice(self, seq):
        self.calls += 1
        return self._r.choice(seq)

    def __getattr__(self, name):
        return getattr(self._r, name)


@handler("iter")
def plan_iter(w: World, op: dict) -> Plan:
    si, sm = w.mnode(op["start"])
    rs = w.real(op["start"])
    if sm is None or rs is None:
        return Plan(SKIP)
    is_tree = op["start"].startswith("T")
    method = op.get("method", "pre")
    add_self = bool(op.get("add_self", False))
    trigger = f"iter/{method}" + ("/add_self" if add_self else "")
    if method in ("random", "unordered") and not is_tree:
        return Plan(EXCLUDED, why="random/unordered iteration of a branch")
    if is_tree and add_self:
        return Plan(EXCLUDED, why="add_self on a tree")
    state = {}

    def call():
        m = _iter_method(w, method)
        if method == "random":
            import nutree.tree as ntt

            old = ntt.random
            try:
                ntt.random = SimRandom(op.get("prng", 1))
                a = list(rs.iterator(m))
                ntt.random = SimRandom(op.get("prng", 1))
                b = list(rs.iterator(m))
            finally:
                ntt.random = old
            state["twice"] = (a, b)
            return a
        if is_tree:
            if op.get("default_iter"):
                return list(rs)
            return list(rs.iterator(m))
        if op.get("default_iter"):
            return list(rs)  # `for n in node`
        kw = {"add_self": add_self} if "add_self" in op else {}
        return list(rs.iterator(m, **kw))

    def after(res):
        def fail(detail):
            raise Violation("C06", "iter-order", detail, trigger)

        uids = [w.uid_of.get(id(n), "?") for n in res]
        if method in ("random", "unordered"):
            exp = sorted(m.uid for m in sm.iter_pre())
            if sorted(uids) != exp:
                fail(f"{method} iteration is not a permutation of the tree's nodes")
            if method == "random":
                a, b = state["twice"]
                if [id(x) for x in a] != [id(x) for x in b]:
                    fail("random order is not a function of the PRNG")
            return
        exp = [m.uid for m in order(sm, method, add_self)]
        if uids != exp:
            fail(f"{method} order {uids}, documented {exp}")

    return Plan(OK, call=call, apply=None, owner="C06", trigger=trigger, after=after,
                slots=(si,), readonly=True)


# ------------------------------------------------------------------------------
# visit
# ------------------------------------------------------------------------------
SIGNALS = ("SKIP_cls", "SKIP_inst", "SKIP_raise", "SKIP_raise_cls",
           "SKIPself_inst", "SKIPself_raise",  # SkipBranch(and_self=False): still a skip here
           "STOP_false", "STOP_cls", "STOP_inst", "STOP_raise", "STOP_raise_cls",
           "STOPIT_cls", "STOPIT_inst", "STOPIT_raise")


def model_visit(start: MNode, method: str, add_self: bool, signal_of):
    """-> (sequence of uids the callback sees, stopped?)"""
    seq = []

    class _Stop(Exception):
        pass

    def cb(n: MNode) -> bool:
        """True = skip children"""
        seq.append(n.uid)
        s = signal_of(n.uid)
        if s is None:
            return False
        if s.startswith("SKIP"):
            return True
        raise _Stop()

    def pre(n):
        if cb(n):
            return
        for c in n.children:
            pre(c)

    def post(n):
        for c in n.children:
            post(c)
        cb(n)

    try:
        if method == "level":
            if add_self and cb(start):
                return seq, False
            level = list(start.children)
            while level:
                nxt = []
                for c in level:
                    if cb(c):
                        continue
                    nxt.extend(c.children)
                level = nxt
        elif method == "pre":
            if add_self:
                if cb(start):
                    return seq, False
            for c in start.children:
                pre(c)
        elif method == "post":
            for c in start.children:
                post(c)
            if add_self:
                cb(start)
        else:
            raise KeyError(method)
    except _Stop:
        return seq, True
    return seq, False


@handler("visit")
def plan_visit(w: World, op: dict) -> Plan:
    si, sm = w.mnode(op["start"])
    rs = w.real(op["start"])
    if sm is None or rs is None:
        return Plan(SKIP)
    is_tree = op["start"].startswith("T")
    method = op.get("method", "pre")
    add_self = bool(op.get("add_self", False))
    signals = op.get("signals", {})
    if is_tree and add_self:
        return Plan(EXCLUDED, why="add_self on a tree")
    if method not in VISIT_METHODS:
        return Plan(EXCLUDED, why="visit() offers pre/post/level order only")
    if method == "post" and any(str(s[0]).startswith("SKIP") for s in signals.values()):
        return Plan(EXCLUDED, why="skip in post-order is documented as unsupported")
    nt = w.nt
    seen = []
    value = op.get("value", 7)
    used = sorted({s[0].split("_")[0] for s in signals.values()})
    trigger = f"visit/{method}" + ("/add_self" if add_self else "") + \
        ("/" + "+".join(used) if used else "")

    def signal_of(uid):
        s = signals.get(uid)
        return None if s is None else s[0]

    exp_seq, exp_stopped = model_visit(sm, method, add_self, signal_of)
    # value carried by the first stop signal reached
    exp_value = None
    if exp_stopped:
        sig = signals[exp_seq[-1]][0]
        if sig in ("STOP_inst", "STOP_raise", "STOPIT_inst", "STOPIT_raise"):
            exp_value = value

    def callback(node, memo):
        w.fault.tick("visitor")
        uid = w.uid_of.get(id(node), "?")
        seen.append(uid)
        if memo is not None and isinstance(memo, dict):
            memo.setdefault("n", 0)
            memo["n"] += 1
        s = signals.get(uid)
        if s is None:
            return op.get("ret_true") and True or None
        sig = s[0]
        if sig == "SKIP_cls":
            return nt.SkipBranch
        if sig == "SKIP_inst":
            return nt.SkipBranch()
        if sig == "SKIP_raise":
            raise nt.SkipBranch()
        if sig == "SKIP_raise_cls":
            raise nt.SkipBranch
        if sig == "SKIPself_inst":
            return nt.SkipBranch(and_self=False)
        if sig == "SKIPself_raise":
            raise nt.SkipBranch(and_self=False)
        if sig == "STOP_false":
            return False
        if sig == "STOP_cls":
            return nt.StopTraversal
        if sig == "STOP_inst":
            return nt.StopTraversal(value)
        if sig == "STOP_raise":
            raise nt.StopTraversal(value)
        if sig == "STOP_raise_cls":
            raise nt.StopTraversal
        if sig == "STOPIT_cls":
            return StopIteration
        if sig == "STOPIT_inst":
            return StopIteration(value)
        if sig == "STOPIT_raise":
            raise StopIteration(value)
        raise KeyError(sig)

    def call():
        kw = {"method": _iter_method(w, method)}
        if not is_tree and "add_self" in op:
            kw["add_self"] = add_self
        if op.get("memo"):
            kw["memo"] = {}
        with warnings.catch_warnings():
            warnings.simplefilter("ignore")
            return rs.visit(callback, **kw)

    def after(res):
        def fail(check, detail):
            raise Violation("C06", check, detail, trigger)

        if seen != exp_seq:
            if exp_stopped and seen[:len(exp_seq)] == exp_seq:
                fail("visit-stop", f"callback ran {len(seen) - len(exp_seq)} more time(s) "
                                   f"after the stop signal at {exp_seq[-1]}")
            fail("visit-order", f"callback sequence {seen}, documented {exp_seq}")
        if res != exp_value:
            fail("visit-value", f"visit() returned {res!r}, the signal carried {exp_value!r}")

    return Plan(OK, call=call, apply=None, owner="C06", trigger=trigger, after=after,
                slots=(si,), readonly=True)


# ------------------------------------------------------------------------------
# read-only calls with callbacks / streams (C13 fault sites)
# ------------------------------------------------------------------------------
@handler("read")
def plan_read(w: World, op: dict) -> Plan:
    ref = f"T{op['slot']}"
    si, root = w.mnode(ref)
    rt = w.real(ref)
    if root is None or rt is None:
        return Plan(SKIP)
    mt = tree_of(w, si)
    what = op["what"]
    trigger = "read/" + what
    fault = op.get("fault") or {}

    def ser(node, data):
        w.fault.tick("mapper")
        if not isinstance(node.data, str):
            data.update(encode_value(node.data))
        return data

    if what == "save_stream":
        class_style = mt.flavour in ("sub", "tsub")

        def call():
            fp = S.SimStream(fail_at=fault.get("at") if fault.get("cb") == "io" else None)
            kw = {} if class_style else {"mapper": ser}
            try:
                rt.save(fp, **kw)
            except OSError:
                if fp.failed:
                    w.fault.fired = True
                    raise InjectedFault("io") from None
                raise
            return fp.writes
    elif what == "to_dict_list":
        def call():
            return rt.to_dict_list(mapper=ser)
    elif what == "to_dotfile":
        def node_mapper(node, data):
            w.fault.tick("mapper")
            return None

        def call():
            fp = S.SimStream(fail_at=fault.get("at") if fault.get("cb") == "io" else None)
            try:
                rt.to_dotfile(fp, node_mapper=node_mapper)
            except OSError:
                if fp.failed:
                    w.fault.fired = True
                    raise InjectedFault("io") from None
                raise
            return fp.writes
    elif what == "find_match":
        label = op.get("label", "a")

        def match(node):
            w.fault.tick("match")
            return label in node.name

        def call():
            return rt.find_all(match=match)
    elif what == "format":
        def rep(node):
            w.fault.tick("repr")
            return node.name

        def call():
            return rt.format(repr=rep)
    elif what == "find_data":
        from .ops import resolve_data

        found, obj = resolve_data(w, op["src"])
        if not found:
            return Plan(SKIP)
        try:
            mt.rule(obj)
        except TypeError:
            return Plan(EXCLUDED, why="unhashable data in a tree without id callback")

        def call():
            return rt.find_all(obj)
    else:
        raise KeyError(what)
    return Plan(OK, call=call, apply=None, owner="C13", trigger=trigger, slots=(si,),
                readonly=True)
