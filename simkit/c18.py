"""C18: snapshot operations honour the tree lock - seeded thread schedules.

One shared tree, 1-2 writer threads that mutate only inside `with tree:`, 1-3
reader threads calling the snapshot operations.  The tree's lock is replaced by
a SimRLock; the scheduler decides every interleaving.  Oracles over the
recorded history:

 1 snapshot linearizability: each completed snapshot equals the sequential
   result on the state of some commit v with
   commits_before(invoke) <= v <= commits_before(return)
 2 a snapshot op raises only if it raises sequentially (no exception caused by
   a half-updated tree)
 3 mutual exclusion of `with tree:` sections
 4 re-entrancy / no deadlock
 5 no lock leak after callback / stream faults
 6 bounded liveness once the writers are done
"""
from __future__ import annotations

import json
import os
import re

from . import rng as R
from . import store as S
from .gen import BASE_WEIGHTS, draw_cfg, gen_op
from .history import default_probes, new_world, run_step
from .ops import make_plan
from .model import MTree, model_filter
from .sched import Deadlock, Scheduler, StepCap, swap_locks
from .world import HarnessError, InjectedFault, Violation, real_children

READER_OPS = ("save", "save_vm", "save_path", "copy", "filtered", "copy_to", "to_dict_list", "to_dotfile",
              "with_list", "save_meta", "to_dotfile_path")


# ------------------------------------------------------------------------------
# canonical forms
# ------------------------------------------------------------------------------
def canon_model(m, typed):
    return tuple((c.name, c.kind if typed else None, canon_model(c, typed)) for c in m.children)


def canon_real(obj, typed):
    return tuple((c.name, getattr(c, "kind", None) if typed else None, canon_real(c, typed))
                 for c in real_children(obj))


def canon_names(c):
    return tuple((n, canon_names(k)) for n, _kind, k in c)


def preorder(c):
    out = []
    for n, _k, kids in c:
        out.append(n)
        out.extend(preorder(kids))
    return out


def edges_of(c, root="<root>"):
    out = []

    def rec(parent, kids):
        for n, _k, sub in kids:
            out.append((parent, n))
            rec(n, sub)

    rec(root, c)
    return sorted(out)


def snap_pred_verdict(name: str) -> str:
    if name.startswith("m") or name in ("a", "b"):
        return "SEL"
    return "F"


def copy_name(tree_cls_name: str, name: str) -> str:
    """Default name of Tree.copy(): "Copy of " + repr of the source tree."""
    return f"Copy of {tree_cls_name}<{name!r}>"


def expected_of(op_kind: str, mclone: MTree, typed: bool, name=None):
    """name: (class name, tree name) of the committed state - the copying snapshot
    operations also read the tree's name (it ends up in the copy's name)."""
    c = canon_model(mclone.root, typed)
    if name is not None and op_kind in ("copy", "filtered"):
        return (expected_of(op_kind, mclone, typed), copy_name(*name))
    if op_kind == "copy_to":
        # (kinds of the copied top nodes are the open finding C07 typed-nokind)
        if not c:
            return ("EXC", "ValueError")  # documented: nothing to copy
        return canon_names(c)
    if op_kind in ("copy", "save", "save_vm", "save_path"):
        return c
    if op_kind == "save_meta":
        # the mapper stores each node's (live) metadata dict: (structure, meta per
        # pre-order position)
        metas = tuple(tuple(sorted((n.meta or {}).items())) for n in mclone.root.iter_pre())
        return (c, metas)
    if op_kind == "to_dict_list":
        return canon_names(c)
    if op_kind == "with_list":
        return tuple(preorder(c))
    if op_kind in ("to_dotfile", "to_dotfile_path"):
        return tuple(edges_of(c))
    if op_kind == "filtered":
        names = {}
        for n in mclone.root.iter_pre():
            names[n.uid] = n.name
        fr = model_filter(mclone.root, lambda uid: snap_pred_verdict(names[uid]))

        def rec(m):
            return tuple((x.name, rec(x)) for x in m.children if x.uid in fr.kept)

        return rec(mclone.root)
    raise KeyError(op_kind)


def decode_saved(text: str, typed: bool, with_meta=False):
    meta, entries = S.decode_document(text)
    kids = {0: []}
    info = {}
    for e in entries[1:]:
        d = e.data
        if isinstance(d, str):
            name, kind = d, None
        else:
            name, kind = d.get("str"), d.get("kind")
        info[e.pos] = (name, kind if typed else None)
        kids.setdefault(e.parent, []).append(e.pos)
        kids.setdefault(e.pos, [])

    def rec(p):
        return tuple((info[c][0], info[c][1], rec(c)) for c in kids[p])

    if with_meta:
        # per position: the stored user metadata, or REF for a clone reference (which
        # carries no fields of its own)
        metas = []
        for e in entries[1:]:
            if e.kind_of_entry == "ref":
                metas.append(REF)
            elif isinstance(e.data, dict):
                metas.append(tuple(sorted((e.data.get("um") or {}).items())))
            else:
                metas.append(REF)  # plain string entry: the mapper is not called
        return (rec(0), tuple(metas))
    return rec(0)


REF = "<ref>"


def snap_equal(op_kind, got, exp) -> bool:
    if op_kind == "save_meta" and isinstance(got, tuple) and isinstance(exp, tuple) \
            and len(got) == 2 and len(exp) == 2 and got[0] != "EXC" and exp[0] != "EXC":
        if got[0] != exp[0] or len(got[1]) != len(exp[1]):
            return False
        return all(g == REF or g == e for g, e in zip(got[1], exp[1]))
    return got == exp


DOT_EDGE = re.compile(r"^\s*(\S+) -> (\S+)")
DOT_NODE = re.compile(r'^\s*(\S+) \[.*label="([^"]*)"')


def decode_dot(text: str):
    labels = {}
    edges = []
    for line in text.splitlines():
        m = DOT_EDGE.match(line)
        if m:
            edges.append((m.group(1), m.group(2)))
            continue
        m = DOT_NODE.match(line)
        if m:
            labels.setdefault(m.group(1), m.group(2))
    out = []
    for p, c in edges:
        out.append((labels.get(p, "?") if p != "__root__" else "<root>", labels.get(c, "?")))
    return tuple(sorted(out))


# ------------------------------------------------------------------------------
# one simulated run
# ------------------------------------------------------------------------------
def draw_c18_cfg(rng, tier):
    cfg = {
        "typed": rng.random() < 0.35,
        "n_writers": rng.choice([1, 1, 2]),
        "n_readers": rng.choice([1, 2, 2, 3]),
        "n_cs": rng.randint(1, 3 if tier == "quick" else 6),
        "n_mut": rng.randint(1, 3),
        "n_reads": rng.randint(1, 4 if tier == "quick" else 6),
        "p_line": rng.choice([0.0, 0.0, 0.005, 0.02, 0.1]),
        "stall_prob": rng.choice([0.0, 0.0, 0.02, 0.05]),
        "p_nested": rng.choice([0.0, 0.3, 0.6]),
        "p_fault": rng.choice([0.0, 0.0, 0.15, 0.3]),
        "p_io": rng.choice([0.0, 0.0, 0.05, 0.3]),
        "p_clear": rng.choice([0.0, 0.0, 0.2, 0.5]),
        "init_nodes": rng.randint(1, 8),
        "reader_ops": rng.sample(READER_OPS, rng.randint(2, len(READER_OPS))),
        "unique_labels": True,
    }
    dots = [o for o in cfg["reader_ops"] if o.startswith("to_dotfile")]
    if "save_meta" in cfg["reader_ops"] and dots:
        # save_meta worlds give nodes explicit data_ids (only such entries reach the
        # mapper); the DOT decoder identifies nodes by label, so the two do not mix
        if rng.random() < 0.5:
            cfg["reader_ops"].remove("save_meta")
        else:
            cfg["reader_ops"] = [o for o in cfg["reader_ops"] if o not in dots]
    return cfg


class C18Result:
    def __init__(self):
        self.violations = []  # (check, detail, trigger)
        self.harness_error = None
        self.history = []
        self.commits = 0
        self.decisions = 0
        self.switches = 0
        self.word_digest = ""
        self.max_waiters = 0
        self.line_yields = 0
        self.io_stalls = 0  # writes to the target stream during which another thread ran
        self.cleared_in_cs = 0
        self.faults_fired = {}
        self.reads_done = 0
        self.reads_while_writer_in_cs = 0
        self.reader_blocked = 0
        self.choices = []
        self.digest = ""
        self.ops_by_kind = {}
        self.invalid = False
        self.liveness = None


def c18_run(base_seed, index, tier, nt, *, forced=None, cfg_override=None,
            avoid=()) -> C18Result:
    seed = R.run_seed(base_seed, "sched", "C18", index)
    res = C18Result()
    cfg = cfg_override or draw_c18_cfg(R.stream(seed, "cfg"), tier)
    res.cfg = cfg
    res.seed = seed
    typed = cfg["typed"]
    # world with one shared tree, initial content built sequentially
    hcfg = draw_cfg(R.stream(seed, "hcfg"), "C18", "quick", {
        "slots": ["typed" if typed else "plain"], "p_fault": 0.0, "p_refuse": 0.05,
        "p_steer": 0.0, "flavours": ["s"],
        # (only entries with an explicit id reach the serialize mapper of save_meta)
        "ids": ["#x1", "#x2", "#x3", "#x4"] if "save_meta" in cfg["reader_ops"] else [],
        "p_explicit_id": 0.7 if "save_meta" in cfg["reader_ops"] else 0.0,
        "labels": list("abcdefgh"), "max_nodes": 15,
    })
    w = BASE_WEIGHTS
    hcfg["weights"] = {"add": 30, "move": 0 if typed else 10, "remove": 8, "sort": 3,
                       "set_data": 6, "remove_children": 1, "meta": 8, "filter": 0, "del": 0,
                       "clear": 0}
    if "save_meta" in cfg["reader_ops"]:
        hcfg["weights"]["meta"] = 40  # metadata edits are what this snapshot can tear
    hcfg["probe_keys"] = []
    hcfg["bulk"] = None  # small shared trees: the schedule space is what is explored here
    hcfg["shape"] = None
    hcfg["max_nodes"] = 15
    hcfg["labels"] = list("abcdefgh")
    world = new_world(hcfg, nt)
    slot = world.slots[0]
    tree = slot.real
    init_rng = R.stream(seed, "init")
    frng = R.stream(seed, "nofault")
    opid = [0]

    def next_op(rng):
        opid[0] += 1
        return gen_op(rng, frng, hcfg, world, opid[0])

    for _ in range(cfg["init_nodes"]):
        r = run_step(world, next_op(init_rng), index_every=False)
        if r.violations:
            return res  # another property's business; not a C18 run

    sched = Scheduler(R.stream(seed, "sched"), line_rng=R.stream(seed, "line"),
                      p_line=cfg["p_line"], nutree_dir=os.path.dirname(nt.__file__),
                      max_decisions=100000,
                      stall_prob=cfg["stall_prob"])
    sched.forced = list(forced) if forced is not None else None
    locks = swap_locks(tree, sched)
    if not locks:
        res.violations.append(("no-lock", "the tree has no lock object to honour", "setup"))
        return res
    lock = locks[0]

    tree.name = "v0"
    cls_name = type(tree).__name__
    # (seq of release, model clone, (class, tree name)); v0 = initial state
    commits = [(0, slot.model.clone(), (cls_name, "v0"))]
    st = {"in_cs": None, "pending": None, "writers_left": cfg["n_writers"], "name": "v0"}

    def on_release(thread):
        if st["pending"] is not None:
            seq = sched.log("commit", len(commits))
            commits.append((seq, st["pending"], (cls_name, st["pending_name"])))
            st["pending"] = None

    for lk in locks:
        lk.on_release = on_release

    violations = res.violations

    def enter_cs(who):
        if st["in_cs"] is not None and st["in_cs"] != who:
            violations.append(("mutual-exclusion",
                               f"{who} entered `with tree:` while {st['in_cs']} is inside",
                               "with-tree"))
        st["in_cs"] = who

    io_rng = R.stream(seed, "io")

    def slow_disk():
        # a write to the target stream may take long: another thread runs meanwhile
        if cfg.get("p_io") and sched.phase2_at is None and io_rng.random() < cfg["p_io"]:
            res.io_stalls += 1
            sched.pause()

    def do_snapshot(kind, fault_at=None, fault_cb=None, plan=None):
        """Execute one snapshot op; -> canonical result."""
        def ser(node, data):
            if plan is not None:
                plan.tick("mapper")
            return data

        def pred(node):
            if plan is not None:
                plan.tick("pred")
            v = snap_pred_verdict(node.name)
            return nt.SelectBranch() if v == "SEL" else False

        if kind == "save_meta":
            def ser_meta(node, data):
                if plan is not None:
                    plan.tick("mapper")
                if node.meta is not None:
                    data["um"] = node.meta  # the node's own dict, not a copy
                return data

            fp = S.SimStream(fail_at=fault_at if fault_cb == "io" else None)
            fp.on_write = slow_disk
            try:
                tree.save(fp, mapper=ser_meta)
            except OSError:
                if fp.failed:
                    raise InjectedFault("io") from None
                raise
            return decode_saved(fp.getvalue(), typed, with_meta=True)
        if kind in ("save", "save_vm"):
            fp = S.SimStream(fail_at=fault_at if fault_cb == "io" else None)
            fp.on_write = slow_disk
            kw = {}
            if kind == "save_vm":
                # caller-supplied value map without a "kind" entry (typed trees add it)
                kw["value_map"] = {"type": ["int", "tup"]}
            try:
                tree.save(fp, mapper=ser, **kw)
            except OSError:
                if fp.failed:
                    raise InjectedFault("io") from None
                raise
            return decode_saved(fp.getvalue(), typed)
        if kind == "save_path":
            from .ops_store import _scratch_dir

            path = os.path.join(_scratch_dir(world), f"c18-{sched.current.name}.nutree")
            try:
                tree.save(path, mapper=ser)
                return decode_saved(S.read_saved_text(path), typed)
            finally:
                try:
                    os.unlink(path)
                except OSError:
                    pass
        if kind == "copy":
            cp = tree.copy()
            return (canon_real(cp, typed), cp.name)
        if kind == "filtered":
            cp = tree.filtered(pred)
            return (canon_names(canon_real(cp, typed)), cp.name)
        if kind == "copy_to":
            target = type(tree)("private")
            tree.copy_to(target)
            return canon_names(canon_real(target, typed))
        if kind == "to_dict_list":
            def conv(items):
                return tuple((d["data"], conv(d.get("children", []))) for d in items)

            return conv(tree.to_dict_list(mapper=ser))
        if kind == "to_dotfile":
            fp = S.SimStream(fail_at=fault_at if fault_cb == "io" else None)
            try:
                tree.to_dotfile(fp)
            except OSError:
                if fp.failed:
                    raise InjectedFault("io") from None
                raise
            return decode_dot(fp.getvalue())
        if kind == "to_dotfile_path":
            from .ops_store import _scratch_dir

            path = os.path.join(_scratch_dir(world), f"c18-{sched.current.name}.gv")
            try:
                tree.to_dotfile(path)
                with open(path, encoding="utf8") as f:
                    return decode_dot(f.read())
            finally:
                try:
                    os.unlink(path)
                except OSError:
                    pass
        if kind == "with_list":
            with tree:
                enter_cs_reader()
                out = tuple(n.name for n in tree)
                leave_cs_reader()
            return out
        raise KeyError(kind)

    def enter_cs_reader():
        who = sched.current.name
        if st["in_cs"] is not None and st["in_cs"] != who:
            violations.append(("mutual-exclusion",
                               f"{who} entered `with tree:` while {st['in_cs']} is inside",
                               "with-tree"))

    def leave_cs_reader():
        pass

    def writer(tid):
        rng = R.stream(seed, f"writer{tid}")
        name = f"W{tid}"

        def body():
            for cs in range(cfg["n_cs"]):
                with tree:
                    enter_cs(name)
                    sched.log("cs-enter", name)
                    # the tree's name is part of its state (copies are named after it)
                    st["name"] = f"v{tid}.{cs}"
                    tree.name = st["name"]
                    sched.pause()
                    run_step(world, {"id": 100000 + tid * 1000 + cs * 10, "k": "add",
                                     "parent": "T0", "api": "add",
                                     "src": {"data": f"s:m{tid}.{cs}.x"},
                                     **({"kind": "k0"} if typed else {})}, index_every=False)
                    sched.pause()
                    if cfg.get("p_clear") and rng.random() < cfg["p_clear"]:
                        # a transaction that empties the tree and rebuilds it: a reader
                        # must never see (or act on) the transiently empty tree
                        run_step(world, {"id": 100005 + tid * 1000 + cs * 10, "k": "clear",
                                         "slot": 0}, index_every=False)
                        res.cleared_in_cs += 1
                        sched.pause()
                    if "save_meta" in cfg["reader_ops"]:
                        # edit the metadata dicts that a save_meta snapshot aliases
                        stamped = [m for m in slot.model.root.iter_pre() if m.explicit][:2]
                        for k, m in enumerate(stamped):
                            run_step(world, {"id": 100002 + tid * 1000 + cs * 10 + k,
                                             "k": "meta", "node": m.uid, "fn": "set",
                                             "key": "t", "value": f"{tid}.{cs}"},
                                     index_every=False)
                        sched.pause()
                    for _ in range(cfg["n_mut"]):
                        op = next_op(rng)
                        if any(rx.search(make_plan(world, op).trigger) for rx in avoid):
                            continue  # trigger of an open finding of another property
                        r = run_step(world, op, index_every=False)
                        if r.violations:
                            # another property's violation: model and tree may differ now,
                            # the run cannot be judged for C18
                            st["invalid"] = True
                            break
                        sched.pause()
                    if rng.random() < cfg["p_nested"]:
                        kind = rng.choice(cfg["reader_ops"])
                        try:
                            with tree:
                                got = do_snapshot(kind)
                        except ValueError:
                            got = ("EXC", "ValueError")
                        exp = expected_of(kind, slot.model, typed, (cls_name, st["name"]))
                        if not snap_equal(kind, got, exp) and not st.get("invalid"):
                            violations.append(("nested-snapshot",
                                               f"{kind} inside the owner's `with tree:` differs "
                                               f"from the current state: got {str(got)[:300]} expected {str(exp)[:300]}",
                                               f"nested/{kind}"))
                    run_step(world, {"id": 100001 + tid * 1000 + cs * 10, "k": "add",
                                     "parent": "T0", "api": "add",
                                     "src": {"data": f"s:m{tid}.{cs}.y"},
                                     **({"kind": "k0"} if typed else {})}, index_every=False)
                    st["pending"] = slot.model.clone()
                    st["pending_name"] = st["name"]
                    st["in_cs"] = None
                    sched.log("cs-exit", name)
                sched.pause()
            st["writers_left"] -= 1
            if st["writers_left"] == 0:
                # faults stop here: no more writers, no line pre-emption, no stalls
                sched.phase2_at = sched.decisions
                sched.p_line = 0.0
                sched.stall_prob = 0.0
                sched.stalled = None
                st["reads_at_phase2"] = len(history)

        return body

    history = res.history

    def reader(tid):
        rng = R.stream(seed, f"reader{tid}")
        name = f"R{tid}"

        def body():
            for i in range(cfg["n_reads"]):
                kind = rng.choice(cfg["reader_ops"])
                fault = None
                if cfg["p_fault"] and rng.random() < cfg["p_fault"]:
                    cbs = {"save": ["mapper", "io"], "save_vm": ["mapper", "io"],
                           "save_meta": ["mapper", "io"],
                           "save_path": ["mapper"],
                           "to_dict_list": ["mapper"],
                           "filtered": ["pred"], "to_dotfile": ["io"]}.get(kind)
                    if cbs:
                        fault = (rng.choice(cbs), rng.randint(1, 4))
                inv = sched.log("invoke", kind)
                writer_inside = st["in_cs"] is not None
                exc = None
                got = None
                plan = None
                if fault and fault[0] != "io":
                    from .world import FaultPlan

                    plan = FaultPlan()
                    plan.arm(list(fault))
                try:
                    got = do_snapshot(kind, fault_at=fault[1] if fault else None,
                                      fault_cb=fault[0] if fault else None, plan=plan)
                except InjectedFault as e:
                    exc = e
                except Exception as e:  # noqa: BLE001
                    exc = e
                ret = sched.log("return", kind)
                history.append({"thread": name, "op": kind, "inv": inv, "ret": ret,
                                "result": got, "exc": exc, "fault": fault,
                                "writer_inside_at_invoke": writer_inside})
                sched.pause()

        return body

    threads = []
    for t in range(cfg["n_writers"]):
        threads.append(sched.spawn(f"W{t}", writer(t)))
    for t in range(cfg["n_readers"]):
        threads.append(sched.spawn(f"R{t}", reader(t)))

    try:
        sched.run()
    except Deadlock as e:
        violations.append(("deadlock", str(e), "deadlock"))
        sched.abort()
    except StepCap as e:
        sched.abort()
        res.harness_error = str(e)
    finally:
        if not sched.aborted:
            for t in threads:
                t.thread.join(timeout=5)

    res.decisions = sched.decisions
    res.switches = sched.switches
    res.max_waiters = sched.max_waiters
    res.line_yields = sched.line_yields
    res.word_digest = R.digest(sched.word)
    res.choices = sched.choices
    res.commits = len(commits) - 1
    res.reader_blocked = sum(lk.contended for lk in locks)

    for t in threads:
        if t.exc is not None and not isinstance(t.exc, (InjectedFault,)):
            if isinstance(t.exc, HarnessError):
                res.harness_error = str(t.exc)
            else:
                violations.append(("thread-died", f"{t.name}: {type(t.exc).__name__}: {t.exc}",
                                   "thread"))

    if not sched.aborted:
        # 5. no lock leak
        for lk in locks:
            if lk.owner is not None or lk.count != 0:
                violations.append(("lock-leak", f"{lk.name} still held by "
                                   f"{getattr(lk.owner, 'name', lk.owner)} after all threads "
                                   f"finished", "lock-leak"))
        # 6. bounded liveness after the writers are done (faults have stopped)
        if sched.phase2_at is not None:
            total_reads = cfg["n_readers"] * cfg["n_reads"]
            remaining = total_reads - st.get("reads_at_phase2", 0)
            used = sched.decisions - sched.phase2_at
            bound = 50 * remaining + 50
            res.liveness = (remaining, used, bound)
            if used > bound:
                violations.append(("liveness", f"{remaining} reader ops needed {used} scheduler "
                                   f"decisions after the last writer finished (bound {bound})",
                                   "liveness"))

    # 1/2. snapshot linearizability over the recorded history
    commit_seqs = [c[0] for c in commits]

    def commits_before(seq):
        return sum(1 for s in commit_seqs[1:] if s < seq)

    for h in history:
        res.reads_done += 1
        res.ops_by_kind[h["op"]] = res.ops_by_kind.get(h["op"], 0) + 1
        if h["writer_inside_at_invoke"]:
            res.reads_while_writer_in_cs += 1
        lo, hi = commits_before(h["inv"]), commits_before(h["ret"])
        if isinstance(h["exc"], InjectedFault):
            cb = h["fault"][0] if h["fault"] else "?"
            res.faults_fired[cb] = res.faults_fired.get(cb, 0) + 1
            continue
        if h["exc"] is not None and not any(
                expected_of(h["op"], commits[v][1], typed, commits[v][2])
                == ("EXC", type(h["exc"]).__name__)
                for v in range(lo, hi + 1)):
            violations.append(("spurious-exception",
                               f"{h['thread']} {h['op']} raised {type(h['exc']).__name__}: "
                               f"{h['exc']} (sequentially it does not)", f"snapshot/{h['op']}"))
            continue
        ok = False
        got = h["result"]
        if h["exc"] is not None:
            got = ("EXC", type(h["exc"]).__name__)
        for v in range(lo, hi + 1):
            if snap_equal(h["op"], got, expected_of(h["op"], commits[v][1], typed, commits[v][2])):
                ok = True
                break
        if ok:
            continue
        if not ok:
            violations.append(("torn-read",
                               f"{h['thread']} {h['op']} (events {h['inv']}..{h['ret']}) "
                               f"matches none of the committed states v{lo}..v{hi}: "
                               f"got {str(h['result'])[:300]}", f"snapshot/{h['op']}"))
    res.invalid = bool(st.get("invalid"))
    if res.invalid:
        res.violations = []
    res.digest = R.digest((res.word_digest, [(h["thread"], h["op"], h["inv"], h["ret"])
                                             for h in history], res.commits))
    from .ops_store import cleanup_world

    cleanup_world(world)
    return res
