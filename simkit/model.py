"""Reference model: same interface, trivial inside.

Written from the documentation (docstrings + docs/sphinx/ug_*.rst), not from the
implementation.  A tree is a root `MNode` with ordered `children`; indexes are
computed on demand by walking (no incremental bookkeeping that could share a bug
with nutree).
"""
from __future__ import annotations

from .data import guid_hook


class MNode:
    __slots__ = ("uid", "data", "did", "explicit", "kind", "meta", "children", "parent", "nid")

    def __init__(self, uid, data, did, *, explicit=False, kind=None, meta=None):
        self.uid = uid
        self.data = data
        self.did = did
        self.explicit = explicit
        self.kind = kind
        self.meta = meta
        self.children: list[MNode] = []
        self.parent: MNode | None = None
        self.nid = None  # explicit node_id, if one was given

    def __repr__(self):
        return f"M<{self.uid}>"

    @property
    def name(self) -> str:
        return f"{self.data}"

    def is_root(self) -> bool:
        return self.parent is None

    def index(self) -> int:
        for i, c in enumerate(self.parent.children):
            if c is self:
                return i
        raise AssertionError("model corrupt")

    def iter_pre(self, add_self=False):
        if add_self:
            yield self
        stack = list(reversed(self.children))
        while stack:
            n = stack.pop()
            yield n
            stack.extend(reversed(n.children))

    def iter_post(self):
        for c in self.children:
            yield from c.iter_post()
            yield c

    def levels(self):
        level = list(self.children)
        while level:
            yield level
            nxt = []
            for c in level:
                nxt.extend(c.children)
            level = nxt

    def is_descendant_of(self, other: "MNode") -> bool:
        p = self.parent
        while p is not None:
            if p is other:
                return True
            p = p.parent
        return False

    def depth(self) -> int:
        d = 0
        p = self.parent
        while p is not None:
            d += 1
            p = p.parent
        return d

    def height(self) -> int:
        if not self.children:
            return 0
        return 1 + max(c.height() for c in self.children)

    def detach(self):
        pc = self.parent.children
        for i, c in enumerate(pc):
            if c is self:
                del pc[i]
                break
        self.parent = None

    def insert(self, child: "MNode", pos: int | None):
        child.parent = self
        if pos is None:
            self.children.append(child)
        else:
            self.children.insert(pos, child)


class MTree:
    """flavour: 'plain' | 'hook' | 'typed' | 'fwd' | 'sub' (derived class)."""

    def __init__(self, flavour="plain"):
        self.flavour = flavour
        self.root = MNode("root", None, "__root__")

    @property
    def typed(self) -> bool:
        return self.flavour in ("typed", "tsub", "thook")

    @property
    def hook(self) -> bool:
        return self.flavour in ("hook", "thook")

    def rule(self, data):
        """C02: data_id = explicit, else the tree's id callback, else hash(data)."""
        if self.hook:
            return guid_hook(None, data)
        return hash(data)

    def nodes(self):
        return list(self.root.iter_pre())

    def count(self) -> int:
        return sum(1 for _ in self.root.iter_pre())

    def carriers(self, did):
        return [n for n in self.root.iter_pre() if n.did == did]

    def group_of(self, node: MNode):
        return self.carriers(node.did)

    def find_uid(self, uid):
        if uid == "root":
            return self.root
        for n in self.root.iter_pre():
            if n.uid == uid:
                return n
        return None

    def child_dids(self, parent: MNode, exclude=()):
        return [c.did for c in parent.children if all(c is not e for e in exclude)]

    def clone(self, uid_map=None) -> "MTree":
        """Deep copy of the model (same uids, same data objects)."""
        t = MTree(self.flavour)

        def cp(src: MNode, dst: MNode):
            for c in src.children:
                n = MNode(
                    c.uid, c.data, c.did, explicit=c.explicit, kind=c.kind,
                    meta=None if c.meta is None else dict(c.meta),
                )
                dst.insert(n, None)
                cp(c, n)

        cp(self.root, t.root)
        return t


# ------------------------------------------------------------------------------
# Traversal orders (C06) - from the IterMethod docs
# ------------------------------------------------------------------------------
def order(start: MNode, method: str, add_self: bool):
    if method == "pre":
        res = list(start.iter_pre())
        return ([start] + res) if add_self else res
    if method == "post":
        res = list(start.iter_post())
        return (res + [start]) if add_self else res
    res = []
    rev = method in ("level_rtl", "zigzag_rtl")
    toggle = method in ("zigzag", "zigzag_rtl")
    for lvl in start.levels():
        res.extend(reversed(lvl) if rev else lvl)
        if toggle:
            rev = not rev
    return ([start] + res) if add_self else res


# ------------------------------------------------------------------------------
# Filter semantics (C08) - from ug_advanced.rst "Iteration Callbacks"
# ------------------------------------------------------------------------------
class FilterResult:
    def __init__(self):
        self.kept: set[str] = set()  # uids kept (accepted, ancestors, selected)
        self.calls: list[str] = []  # uids the predicate must be called with
        self.stopped = False


def model_filter(start: MNode, verdict_of) -> FilterResult:
    """verdict_of(uid) -> one of
    'T' True | 'F' False/None | 'SK' SkipBranch | 'SKself' SkipBranch(and_self=False)
    | 'SEL' SelectBranch | 'STOP' StopTraversal.
    Scan is depth-first pre-order (children visited right after an accepted or
    undecided node).
    """
    fr = FilterResult()

    class _Stop(Exception):
        pass

    def visit(parent: MNode) -> bool:
        any_kept = False
        for n in parent.children:
            fr.calls.append(n.uid)
            v = verdict_of(n.uid)
            if v == "STOP":
                fr.stopped = True
                # what was accepted so far stays; ancestors of accepted nodes too
                raise _Stop(any_kept)
            if v == "T":
                fr.kept.add(n.uid)
                any_kept = True
                try:
                    visit(n)
                except _Stop:
                    raise _Stop(True) from None
            elif v == "F":
                try:
                    sub = visit(n)
                except _Stop as e:
                    if e.args[0]:
                        fr.kept.add(n.uid)
                        raise _Stop(True) from None
                    raise _Stop(any_kept) from None
                if sub:
                    fr.kept.add(n.uid)
                    any_kept = True
            elif v == "SEL":
                fr.kept.add(n.uid)
                for d in n.iter_pre():
                    fr.kept.add(d.uid)
                any_kept = True
            elif v == "SK":
                pass
            elif v == "SKself":
                fr.kept.add(n.uid)
                any_kept = True
            else:
                raise AssertionError(v)
        return any_kept

    try:
        visit(start)
    except _Stop:
        pass
    return fr


def apply_filter_inplace(start: MNode, kept: set[str]) -> list[MNode]:
    """Remove every descendant of `start` that is not kept; return removed nodes."""
    removed = []

    def rec(p: MNode):
        keep_children = []
        for c in p.children:
            if c.uid in kept:
                keep_children.append(c)
                rec(c)
            else:
                removed.append(c)
                removed.extend(c.iter_pre())
                c.parent = None
        p.children = keep_children

    rec(start)
    return removed


# ------------------------------------------------------------------------------
# Canonical form (for digests / logs; symbolic, process independent)
# ------------------------------------------------------------------------------
def canon(node: MNode, sym):
    """sym(node) -> symbolic (dkey, did_sym).  Iterative (chains of several hundred
    levels must not exhaust the interpreter's recursion limit in the harness)."""
    done: dict[int, tuple] = {}
    stack = [(node, False)]
    while stack:
        n, ready = stack.pop()
        if not ready:
            stack.append((n, True))
            for c in n.children:
                stack.append((c, False))
            continue
        done[id(n)] = tuple(
            (c.uid, sym(c), c.kind, tuple(sorted((c.meta or {}).items())), done.pop(id(c)))
            for c in n.children
        )
    return done[id(node)]


def shape(node: MNode, label):
    """Nested shape without uids (label(node) -> str)."""
    return tuple((label(c), shape(c, label)) for c in node.children)
