"""Common driver of every check: known findings, batch, minimise, replay,
evidence.  Exit codes: 0 held / 1 VIOLATION / 2 HARNESS-ERROR."""
from __future__ import annotations

import json
import os
import re
import subprocess
import sys
import time

VERIF = os.path.dirname(os.path.dirname(os.path.abspath(__file__)))
PY = "/venv/bin/python" if os.path.exists("/venv/bin/python") else sys.executable


def reexec_pinned():
    """One interpreter, one hash seed: replays reproduce bit for bit."""
    want_py = os.path.realpath(PY)
    if os.environ.get("PYTHONHASHSEED") != "0" or os.path.realpath(sys.executable) != want_py:
        env = dict(os.environ)
        env["PYTHONHASHSEED"] = "0"
        env.setdefault("PYTHONDONTWRITEBYTECODE", "1")
        os.execve(PY, [PY] + sys.argv, env)


def load_findings():
    p = os.path.join(VERIF, "known_findings.json")
    if not os.path.exists(p):
        return {"open": [], "fixed": []}
    with open(p) as f:
        return json.load(f)


def open_findings_for(prop):
    return [f for f in load_findings().get("open", []) if f["property"] == prop]


def write_evidence(prop, tier, seed, level, coverage, wall, violations, assumptions):
    ev = {
        "property_id": prop,
        "tier": tier,
        "seed": int(seed),
        "level": level,
        "coverage": coverage,
        "assumptions": assumptions,
        "wall_s": round(wall, 3),
        "violations": int(violations),
    }
    # (runs against a scratch copy of the repository - sensitivity tools - must not
    # replace the evidence of the real tree)
    ev_dir = os.environ.get("VERIF_EVIDENCE_DIR") or os.path.join(VERIF, "evidence")
    os.makedirs(ev_dir, exist_ok=True)
    path = os.path.join(ev_dir, f"{prop}.json")
    tmp = path + ".tmp"
    with open(tmp, "w") as f:
        json.dump(ev, f, indent=1, sort_keys=True, default=_json_default)
        f.write("\n")
    os.replace(tmp, path)
    return path


def _json_default(o):
    if isinstance(o, (set, frozenset)):
        return sorted(o)
    return repr(o)


def write_replay(prop, record, sig, detail):
    os.makedirs(os.path.join(VERIF, "replays"), exist_ok=True)
    path = os.path.join(VERIF, "replays", f"{prop}-{record.get('seed', 0)}.json")
    out = dict(record)
    out["signature"] = list(sig)
    out["detail"] = detail
    with open(path, "w") as f:
        json.dump(out, f, indent=1, default=_json_default)
        f.write("\n")
    return path


def replay_in_fresh_interpreter(prop, path) -> tuple[bool, str]:
    """Run `check <prop> --replay <path>` in a new process; True iff it reproduces."""
    env = dict(os.environ)
    env["PYTHONHASHSEED"] = "0"
    cmd = [PY, os.path.join(VERIF, "check"), prop, "--replay", path, "--quiet"]
    try:
        p = subprocess.run(cmd, env=env, capture_output=True, text=True, timeout=300)
    except subprocess.TimeoutExpired:
        return False, "timeout"
    return p.returncode == 1, (p.stdout + p.stderr)[-2000:]


def parse_args(argv):
    import argparse

    ap = argparse.ArgumentParser()
    ap.add_argument("prop")
    ap.add_argument("--tier", default=os.environ.get("VERIF_TIER", "quick"),
                    choices=["quick", "thorough"])
    ap.add_argument("--replay")
    ap.add_argument("--runs", type=int)
    ap.add_argument("--workers", type=int)
    ap.add_argument("--quiet", action="store_true")
    ap.add_argument("--no-minimise", action="store_true")
    ap.add_argument("--max-seconds", type=float)
    return ap.parse_args(argv)


def base_seed() -> int:
    try:
        return int(os.environ.get("VERIF_SEED", "0"))
    except ValueError:
        return 0


def finding_patterns(prop):
    """-> (known signature regexes, avoid trigger regexes, findings)"""
    fs = open_findings_for(prop)
    known = [f["signature"] for f in fs]
    avoid = [f["avoid"] for f in fs if f.get("avoid")]
    return known, avoid, fs


def all_open_patterns():
    fs = load_findings().get("open", [])
    return [f["signature"] for f in fs], [f["avoid"] for f in fs if f.get("avoid")]
