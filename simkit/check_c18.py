"""Check driver for C18 (SchedSim)."""
from __future__ import annotations

import json
import os
import re
import time

from . import checkmain as CM
from . import rng as R
from .batch import Agg, run_blocks

ASSUME = [
    "CPython 3.12; real threads parked on semaphores, exactly one runs at a time; "
    "who runs next is decided by the seeded scheduler",
    "the tree lock is found by type (threading.RLock/Lock attribute of the tree instance) "
    "and replaced by a simulated lock with the same interface",
    "pre-emption granularity: lock operations, harness pauses and `line` events inside nutree/ "
    "(a race inside one source line is not split)",
    "writers mutate only inside `with tree:` (as the property states)",
    "sampling of schedules: a clean batch is evidence, not proof",
]


def c18_block(start, stop, *, prop, tier, base_seed, avoid_patterns=(), known_patterns=(),
              engine="sched", cfg_overrides=None):
    from .c18 import c18_run
    from .world import import_nutree

    nt = import_nutree()
    avoid = [re.compile(p) for p in avoid_patterns]
    known = [re.compile(p) for p in known_patterns]
    agg = Agg()
    agg.extra = {"decisions": 0, "context_switches": 0, "commits": 0, "snapshot_ops": 0,
                 "snapshots_invoked_while_writer_mid_cs": 0, "lock_contentions": 0,
                 "line_preemptions": 0, "max_concurrent_waiters": 0, "invalid_runs": 0,
                 "schedules": set(), "snapshot_ops_by_kind": {}, "typed_runs": 0,
                 "liveness_checked": 0}
    for index in range(start, stop):
        r = c18_run(base_seed, index, tier, nt, avoid=avoid)
        if r.harness_error:
            agg.harness_errors.append(f"run {index}: {r.harness_error}")
            continue
        agg.runs += 1
        x = agg.extra
        x["decisions"] += r.decisions
        x["context_switches"] += r.switches
        x["commits"] += r.commits
        x["snapshot_ops"] += r.reads_done
        x["snapshots_invoked_while_writer_mid_cs"] += r.reads_while_writer_in_cs
        x["lock_contentions"] += r.reader_blocked
        x["line_preemptions"] += r.line_yields
        x["max_concurrent_waiters"] = max(x["max_concurrent_waiters"], r.max_waiters)
        x["schedules"].add(r.word_digest)
        x["typed_runs"] += 1 if r.cfg["typed"] else 0
        if r.liveness:
            x["liveness_checked"] += 1
        if r.invalid:
            x["invalid_runs"] += 1
            agg.other_prop["other"] = agg.other_prop.get("other", 0) + 1
        for k, v in r.ops_by_kind.items():
            x["snapshot_ops_by_kind"][k] = x["snapshot_ops_by_kind"].get(k, 0) + v
        for k, v in r.faults_fired.items():
            key = "F-cb-raise/" + k if k != "io" else "F-io-write"
            agg.fault_fired[key] = agg.fault_fired.get(key, 0) + v
        agg.fault_fired["F-preempt/lock-op-or-pause"] = \
            agg.fault_fired.get("F-preempt/lock-op-or-pause", 0) + r.switches
        agg.fault_fired["F-preempt/line"] = agg.fault_fired.get("F-preempt/line", 0) + r.line_yields
        agg.fault_fired["F-io-slow-write"] = agg.fault_fired.get("F-io-slow-write", 0) + r.io_stalls
        x["clear_and_rebuild_transactions"] = x.get("clear_and_rebuild_transactions", 0) \
            + r.cleared_in_cs
        agg.steps += r.decisions
        if r.commits >= 1 and r.reads_done >= 1 and r.reads_while_writer_in_cs + r.reader_blocked > 0:
            agg.run_digests_nontrivial.add(r.digest)
        for (check, detail, trig) in r.violations:
            sig = f"C18/{check}/{trig}"
            if any(rx.search(sig) for rx in known):
                agg.known_hits[sig] = agg.known_hits.get(sig, 0) + 1
            else:
                agg.violations.append((index, r.seed, 0, "C18", check, trig, detail[:600]))
        if len(agg.samples) < 2 and r.history:
            agg.samples.append({
                "index": index, "seed": r.seed, "cfg": r.cfg, "commits": r.commits,
                "history": [{"thread": h["thread"], "op": h["op"], "invoke_seq": h["inv"],
                             "return_seq": h["ret"],
                             "fault": h["fault"],
                             "outcome": ("exception " + type(h["exc"]).__name__) if h["exc"]
                             else "ok"} for h in r.history[:20]],
                "schedule_word_len": r.switches})
    return agg


def _violates(r, sig):
    return any((f"C18", c, t) == tuple(sig) for c, _d, t in r.violations)


def replay_file(path, quiet=False) -> int:
    from .c18 import c18_run
    from .world import import_nutree

    with open(path) as f:
        rec = json.load(f)
    nt = import_nutree()
    avoid = [re.compile(p) for p in CM.all_open_patterns()[1]]
    r = c18_run(rec["base_seed"], rec["index"], rec["tier"], nt, forced=rec.get("choices"),
                cfg_override=rec.get("cfg"), avoid=avoid)
    want = tuple(rec["signature"]) if rec.get("signature") else None
    hits = [(c, d, t) for c, d, t in r.violations if want is None or ("C18", c, t) == want] \
        or r.violations
    if not quiet:
        print(f"  decisions={r.decisions} switches={r.switches} commits={r.commits} "
              f"reads={r.reads_done}")
    if hits:
        c, d, t = hits[0]
        print(f"REPRODUCED C18/{c}/{t}: {d[:500]}")
        print(f"VIOLATION property=C18 replay={path}")
        return 1
    print(f"not reproduced: {path}")
    return 0


def minimise(rec, sig, nt, avoid):
    """Simplify configuration (same seed), then shrink the schedule to the fewest
    context switches that still produce the same violation."""
    from .c18 import c18_run

    def run(cfg, forced):
        return c18_run(rec["base_seed"], rec["index"], rec["tier"], nt, forced=forced,
                       cfg_override=cfg, avoid=avoid)

    cfg = dict(rec["cfg"])
    tests = 0
    simpler = [("p_fault", 0.0), ("stall_prob", 0.0), ("p_nested", 0.0), ("p_line", 0.0),
               ("p_io", 0.0), ("p_clear", 0.0)]
    for k, v in simpler:
        if cfg.get(k) != v:
            c2 = dict(cfg)
            c2[k] = v
            tests += 1
            if _violates(run(c2, None), sig):
                cfg = c2
    for k in ("n_readers", "n_writers", "n_reads", "n_cs", "n_mut", "init_nodes"):
        while cfg[k] > 1:
            c2 = dict(cfg)
            c2[k] = cfg[k] - 1
            tests += 1
            if _violates(run(c2, None), sig):
                cfg = c2
            else:
                break
    if len(cfg["reader_ops"]) > 1:
        for op in list(cfg["reader_ops"]):
            c2 = dict(cfg)
            c2["reader_ops"] = [o for o in cfg["reader_ops"] if o != op]
            if not c2["reader_ops"]:
                continue
            tests += 1
            if _violates(run(c2, None), sig):
                cfg = c2
    base = run(cfg, None)
    if not _violates(base, sig):
        return rec, {"minimiser_mismatch": True}
    choices = list(base.choices)
    # schedule shrinking: let the running thread continue wherever possible
    i = 1
    budget = 400
    while i < len(choices) and budget > 0:
        if choices[i] != choices[i - 1]:
            cand = choices[:i] + [choices[i - 1]] + choices[i + 1:]
            budget -= 1
            tests += 1
            r = run(cfg, cand)
            if _violates(r, sig):
                choices = list(r.choices)
                continue
        i += 1
    final = run(cfg, choices)
    out = dict(rec)
    out["cfg"] = cfg
    out["choices"] = list(final.choices) if _violates(final, sig) else list(base.choices)
    return out, {"tests": tests, "switches_before": None,
                 "decisions_after": len(out["choices"])}


def run(prop, spec, argv) -> int:
    args = CM.parse_args(argv)
    if args.replay:
        return replay_file(args.replay, args.quiet)
    t0 = time.time()
    tier = args.tier
    seed = CM.base_seed()
    n_runs = args.runs or spec["runs"][tier]
    _known, _a, findings = CM.finding_patterns(prop)
    all_known, avoid = CM.all_open_patterns()
    known_lines = []
    for f in findings:
        ok, _out = CM.replay_in_fresh_interpreter(prop, os.path.join(CM.VERIF, f["replay"]))
        known_lines.append(f"KNOWN-FINDING: property={prop} {f['what']}" if ok else
                           f"NOTE: listed finding no longer reproduces: {f['signature']}")
    for line in known_lines:
        print(line)
    kwargs = dict(prop=prop, tier=tier, base_seed=seed, avoid_patterns=avoid,
                  known_patterns=all_known)
    agg = run_blocks("simkit.check_c18", "c18_block", kwargs, n_runs, workers=args.workers)
    wall_batch = time.time() - t0
    if agg.harness_errors:
        for e in agg.harness_errors[:5]:
            print("HARNESS-ERROR:", e[:1000])
        print(f"HARNESS-ERROR: {len(agg.harness_errors)} harness errors - no verdict")
        return 2
    rc = 0
    minim = {}
    if agg.violations:
        rc = 1
        agg.violations.sort(key=lambda v: v[0])
        index, rseed, _step, p, c, t, detail = agg.violations[0]
        sig = (p, c, t)
        from .c18 import c18_run
        from .world import import_nutree

        nt = import_nutree()
        avoid_rx = [re.compile(x) for x in avoid]
        r = c18_run(seed, index, tier, nt, avoid=avoid_rx)
        rec = {"engine": "sched", "prop": "C18", "base_seed": seed, "index": index,
               "tier": tier, "seed": r.seed, "cfg": r.cfg, "choices": r.choices}
        rec_min, minim = (rec, {}) if args.no_minimise else minimise(rec, sig, nt, avoid_rx)
        minim["decisions_before"] = len(rec["choices"])
        path = CM.write_replay(prop, rec_min, sig, detail)
        ok, _out = CM.replay_in_fresh_interpreter(prop, path)
        minim["reproduced_in_fresh_interpreter"] = ok
        if not ok:
            path = CM.write_replay(prop, rec, sig, detail)
            minim["minimiser_mismatch"] = True
        print(f"violation: run={index} seed={rseed} {p}/{c}/{t}: {detail[:400]}")
        for d in sorted({(v[3], v[4], v[5]) for v in agg.violations})[:20]:
            print("  signature:", "/".join(d))
        print(f"VIOLATION property={prop} replay={path}")
    wall = time.time() - t0
    x = agg.extra
    cov = {
        "evaluations": agg.runs,
        "distinct_nontrivial": len(agg.run_digests_nontrivial),
        "rule": spec["rule"],
        "samples": agg.samples[:2],
        "runs_per_hour": int(agg.runs / max(wall_batch, 1e-6) * 3600),
        "seeds": {"base": seed, "first_index": 0, "last_index": n_runs - 1,
                  "derivation": "sha256(VERIF_SEED/sched/C18/index)[:8]"},
        "logical_time_steps": x.get("decisions", 0),
        "logical_time_note": "nutree has no clock; simulated time is the number of scheduler "
                             "decisions (global event sequence)",
        "scheduler_decisions": x.get("decisions", 0),
        "context_switches": x.get("context_switches", 0),
        "distinct_schedules": len(x.get("schedules", ())),
        "distinct_schedules_note": "sha of the context-switch word (sequence of scheduled threads)",
        "commits": x.get("commits", 0),
        "snapshot_ops": x.get("snapshot_ops", 0),
        "snapshot_ops_by_kind": x.get("snapshot_ops_by_kind", {}),
        "fault_fired": agg.fault_fired,
        "probes": {
            "snapshot_while_writer_mid_cs": x.get("snapshots_invoked_while_writer_mid_cs", 0),
            "reader_blocked_on_lock": x.get("lock_contentions", 0),
            "line_preemptions": x.get("line_preemptions", 0),
            "typed_tree_runs": x.get("typed_runs", 0),
            "clear_and_rebuild_transactions": x.get("clear_and_rebuild_transactions", 0),
            "liveness_checked_runs": x.get("liveness_checked", 0),
        },
        "max_concurrent_waiters": x.get("max_concurrent_waiters", 0),
        "runs_not_judged_other_property": x.get("invalid_runs", 0),
        "known_findings_hit": agg.known_hits,
        "known_findings_reported": known_lines,
        "components": {
            "real": ["nutree/* from /repo working tree (Tree.__enter__/__exit__, save, copy, "
                     "filtered, copy_to, to_dict_list, tree_to_dotfile)", "json",
                     "real threading.Thread objects (execution), CPython"],
            "stub": ["the tree lock (SimRLock/SimLock, found by type)", "thread scheduling "
                     "(seeded baton scheduler)", "stream targets (SimStream)",
                     "mapper/predicate callbacks (fault plans)"],
        },
        "exhaustive": False,
    }
    if minim:
        cov["minimisation"] = minim
    CM.write_evidence(prop, tier, seed, spec["level"], cov, wall, len(agg.violations), ASSUME)
    if not args.quiet:
        print(f"{prop} {tier}: runs={agg.runs} decisions={x.get('decisions')} "
              f"schedules={len(x.get('schedules', ()))} commits={x.get('commits')} "
              f"snapshots={x.get('snapshot_ops')} mid_cs={x.get('snapshots_invoked_while_writer_mid_cs')} "
              f"blocked={x.get('lock_contentions')} known={agg.known_hits} wall={wall:.1f}s")
    return rc
