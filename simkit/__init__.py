"""simkit - deterministic simulation kit for mar10/nutree (see /verif/DESIGN.md)."""
