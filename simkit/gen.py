"""Seeded generation of run configurations and operation records (swarm style)."""
from __future__ import annotations

from .model import MNode, MTree
from .world import World

LABELS = ["a", "b", "c", "d", "e", "f", "g", "h", "\u00e4", "\u65e5\u672c", "e\u0301",
          "caf\udce9"]  # the last one: a lone surrogate (os.fsdecode of a non-UTF-8 file name)
IDS = ["#x0", "#x1", "#x2", "#x3", 9001, 9002, 0, ""]
KINDS = ["k0", "k1", "k2", ""]  # the empty string is a legal kind


_MAGIC = None


def magic_strings():
    """String literals harvested from the code under test (short ones): values
    like a sentinel tag or a reserved key are exactly what random alphabets
    never produce.  Sorted, so the list is a pure function of the sources."""
    global _MAGIC
    if _MAGIC is not None:
        return _MAGIC
    import ast
    import glob
    import os

    repo = os.environ.get("VERIF_REPO", "/repo")
    found = set()
    for path in sorted(glob.glob(os.path.join(repo, "nutree", "*.py"))):
        try:
            tree = ast.parse(open(path, encoding="utf8").read())
        except (OSError, SyntaxError):
            continue
        for node in ast.walk(tree):
            if isinstance(node, ast.Constant) and isinstance(node.value, str):
                v = node.value
                if 1 <= len(v) <= 12 and "\n" not in v and "{" not in v and v.isprintable():
                    found.add(v)
    _MAGIC = sorted(found)
    return _MAGIC


def reserved_looking(ms):
    """Sentinel / reserved looking literals: <tag>, __dunder__, $key."""
    import re

    return [m for m in ms if re.match(r"^(<[^<>]+>|__\w+__|\$\w+)$", m)]


# ------------------------------------------------------------------------------
# configuration
# ------------------------------------------------------------------------------
BASE_WEIGHTS = {
    "add": 30, "move": 12, "remove": 10, "remove_children": 2, "clear": 1, "del": 3,
    "sort": 4, "set_data": 8, "meta": 3, "filter": 3, "copy": 3, "copy_to": 3,
    "restart": 2, "iter": 1, "visit": 1, "read": 1, "fromdict": 1,
}

PROFILES = {
    # property -> multipliers on BASE_WEIGHTS (+ extra kinds)
    "C01": {"move": 2.5, "remove": 2.5, "filter": 2, "sort": 1.5, "clear": 2},
    "C02": {"set_data": 3, "remove": 2, "filter": 2, "add": 1.2},
    "C03": {"add": 1.5, "move": 2, "set_data": 3, "remove": 2},
    "C04": {"meta": 2, "sort": 2},
    "C07": {"add": 1.5, "copy": 4, "copy_to": 5},
    "C08": {"filter": 8, "copy": 6},
    "C13": {"read": 6, "visit": 3, "sort": 2, "filter": 2, "restart": 2, "fromdict": 3},
    "C06": {"iter": 25, "visit": 30},
    "C05": {"restart": 8, "set_data": 1.5},
    "C12": {"restart": 8, "set_data": 1.5},
    "C14": {"restart": 8, "set_data": 1.5, "fromdict": 4},
}


def draw_cfg(rng, prop: str, tier: str, overrides=None) -> dict:
    cfg = {}
    # slots: primary + optional secondary + optional scratch
    names = ["plain", "hook", "typed", "fwd", "sub", "tsub", "thook"]
    weights = [40, 15, 20, 5, 10, 10, 6]
    if prop in ("C05", "C12"):
        names.append("fs")
        weights.append(12)
    primary = rng.choices(names, weights=weights)[0]
    slots = [primary]
    r = rng.random()
    if r < 0.6:
        if primary == "fs":
            second = "fs"
        elif primary in ("typed", "tsub", "thook"):
            second = rng.choice(["typed", "typed", "plain"])
        else:
            second = rng.choice(["plain", "plain", "hook", "sub", "typed"])
        slots.append(second)
    cfg["slots"] = slots
    n_labels = rng.choice([2, 3, 3, 4, 6, 8])
    cfg["labels"] = list(LABELS[:n_labels])
    if rng.random() < 0.25:
        cfg["labels"] += LABELS[8:]  # non-ASCII labels (file encoding, zip members)
    if rng.random() < 0.12:
        cfg["labels"].append("")  # the empty string is legal (falsy) node data
    if rng.random() < 0.15:
        ms = magic_strings()
        if ms:
            # literals of the code under test: all sentinel-looking ones + a few others
            cfg["labels"] += reserved_looking(ms) + rng.sample(ms, min(2, len(ms)))
    if primary in ("hook", "thook"):
        # case variants are clones under the case-insensitive id callback
        cfg["labels"] = cfg["labels"][:3] + [c.upper() for c in cfg["labels"][:2]]
    flav = ["s"]
    for f, p in (("i", 0.3), ("t", 0.35), ("d", 0.3), ("w", 0.3), ("o", 0.35)):
        if rng.random() < p:
            flav.append(f)
    if primary in ("hook", "thook") and rng.random() < 0.35:
        flav.append("u")  # native dicts keyed by the id callback
    if all(sl in ("hook", "thook") for sl in cfg["slots"]) and rng.random() < 0.5:
        # floats equal to the ints of flavour "i", keyed differently by the id callback
        flav += [f for f in ("i", "x") if f not in flav]
    if primary == "fs":
        flav = ["f"]  # the FileSystemTree mappers only know FileSystemEntry data
    elif primary in ("plain", "typed", "hook", "thook") and rng.random() < 0.04:
        # swarm member: a tree of DictWrapper objects only (what build_random_tree
        # produces), saved / loaded with the mapper pair the library ships
        flav = ["w"]
        cfg["dictwrapper_run"] = True
    cfg["flavours"] = flav
    cfg["ids"] = rng.sample(IDS, rng.choice([0, 2, 3, 4]))
    if cfg["ids"] and rng.random() < 0.2:
        ms = magic_strings()
        if ms:
            cfg["ids"] += reserved_looking(ms) + rng.sample(ms, 1)  # reserved-looking ids
            cfg["p_explicit_id"] = 0.4
    # swarm member "reserved ids": most nodes carry a sentinel-looking explicit id and the
    # history is rich in structural and refused operations
    cfg["reserved_ids_run"] = False
    if rng.random() < 0.04:
        ms = reserved_looking(magic_strings())
        if ms:
            cfg["ids"] = list(ms)
            cfg["p_explicit_id"] = 0.7
            cfg["reserved_ids_run"] = True
    # label and id alphabets stay disjoint: tree[key] resolves ids before data (C09)
    cfg["ids"] = [i for i in cfg["ids"] if i not in cfg["labels"]]
    cfg["p_explicit_id"] = rng.choice([0.0, 0.1, 0.3]) if cfg["ids"] else 0.0
    cfg["kinds"] = rng.sample(KINDS, rng.choice([1, 2, 3]))
    cfg["p_reuse"] = rng.choice([0.1, 0.3, 0.5])
    hi = 40 if tier == "quick" else rng.choice([40, 80, 200])
    cfg["length"] = rng.randint(5, hi)
    cfg["max_nodes"] = rng.choice([8, 15, 25, 40])
    cfg["p_refuse"] = rng.choice([0.0, 0.1, 0.25])
    cfg["p_steer"] = rng.choice([0.0, 0.2, 0.5]) if prop in ("C03", "C13") else rng.choice([0.0, 0.1])
    cfg["p_fault"] = rng.choice([0.0, 0.0, 0.05, 0.1])
    if prop == "C07":
        cfg["p_node_src"] = rng.choice([0.22, 0.35])
        cfg["p_tree_src"] = rng.choice([0.06, 0.15, 0.25])
    if prop in ("C13", "C03", "C04"):
        cfg["p_tree_src"] = rng.choice([0.06, 0.15])  # (C04: positions of whole-tree inserts)
    w = dict(BASE_WEIGHTS)
    for k, mul in PROFILES.get(prop, {}).items():
        w[k] = w.get(k, 1) * mul
    # swarm: randomly damp / disable op kinds
    for k in list(w):
        r = rng.random()
        if r < 0.15 and k != "add":
            w[k] = 0
        elif r < 0.4:
            w[k] *= rng.choice([0.3, 3])
    # swarm members with trees far beyond the usual size: wide (one parent with very many
    # children), deep (long chains) or just big - sizes/depths/counts that small random
    # trees never reach
    cfg["shape"] = None
    if rng.random() < 0.05:
        cfg["shape"] = rng.choice(["wide", "deep", "big"])
        cfg["max_nodes"] = rng.choice([120, 300])
        cfg["length"] = rng.randint(80, 160 if tier == "quick" else 400)
        w["add"] = w.get("add", 30) * 6
        for k in ("clear", "remove_children"):
            w[k] = 0
        cfg["p_refuse"] = min(cfg["p_refuse"], 0.1)
    if cfg.get("reserved_ids_run"):
        cfg["p_refuse"] = 0.25
        w["move"] = max(w.get("move", 0), 12) * 3
        w["remove"] = max(w.get("remove", 0), 10) * 2
    # swarm member "boundary": one bulk step creates a child count / clone count /
    # depth just around a natural boundary (small-int cache, recursion limit, 2**10)
    cfg["bulk"] = None
    p_bulk = 0.012 if tier == "quick" else 0.02
    if prop in ("C03", "C07", "C08"):
        p_bulk *= 2  # copy / filter / uniqueness code has most of the size dependent paths
    if rng.random() < p_bulk:
        kind = rng.choice(["wide", "wide", "clones", "chain"])
        if kind == "chain":
            n = rng.choice([255, 256, 257, 258, 300])
        else:
            n = rng.choice([255, 256, 257, 258, 1000, 1001, 1002, 1024, 1025])
        cfg["bulk"] = {"kind": kind, "n": n, "at": rng.randint(0, 4)}
        if not cfg["ids"]:
            cfg["ids"] = ["#x1", "#x2"]  # the follow-ups place explicit-id twins
        cfg["length"] = rng.randint(8, 25)
        cfg["max_nodes"] = 10 ** 6
        cfg["p_fault"] = 0.0
        for k in ("clear", "restart", "copy", "copy_to"):
            w[k] = w.get(k, 0) * 0.3
        w["filter"] = max(w.get("filter", 0), 3) * 3
        w["move"] = max(w.get("move", 0), 12) * 2
        w["remove"] = max(w.get("remove", 0), 10)
        cfg["p_steer"] = max(cfg["p_steer"], 0.3)
        cfg["p_refuse"] = max(cfg["p_refuse"], 0.1)
        if "s" not in cfg["flavours"] and primary != "fs":
            cfg["flavours"].append("s")
    cfg["weights"] = w
    keys = []
    for f in flav:
        keys.extend(_keys_of_flavour(f, cfg))
    cfg["probe_keys"] = keys
    if overrides:
        cfg.update(overrides)
    return cfg


def _keys_of_flavour(f, cfg):
    if f == "s":
        return ["s:" + c for c in cfg["labels"]]
    if f == "i":
        # 0: falsy but valid data; 2**61-1 and 2**61: ints whose hash differs from their value
        return ["i:1", "i:2", "i:3", "i:0", "i:2305843009213693951", "i:2305843009213693952"]
    if f == "x":
        return ["x:1", "x:2", "x:3", "x:0"]
    if f == "t":
        return ["t:1#0", "t:1#1", "t:2#0"]
    if f == "d":
        return ["d:1#0", "d:1#1", "d:2#0"]
    if f == "w":
        if cfg.get("dictwrapper_run"):
            keys = [f"w:{k}" for k in range(1, 9)]
            if not any(sl in ("typed", "tsub", "thook") for sl in cfg["slots"]):
                keys.append("w:9")  # its dict has a user field named "kind"
            return keys
        return ["w:1", "w:2", "w:3"]
    if f == "o":
        return ["o:1", "o:2", "o:3"]
    if f == "f":
        return ["f:1", "f:2", "f:3", "g:1", "g:2"]
    if f == "u":
        return ["u:1", "u:2", "u:3", "u:4"]
    return []


# ------------------------------------------------------------------------------
# pickers
# ------------------------------------------------------------------------------
def live_slots(w: World):
    return [i for i, s in enumerate(w.slots) if s is not None]


def pick_slot(rng, w: World, primary_bias=0.7) -> int:
    ls = live_slots(w)
    if 0 in ls and rng.random() < primary_bias:
        return 0
    return rng.choice(ls)


def nodes_of(w: World, si: int):
    return w.slots[si].model.nodes()


def pick_node(rng, w: World, si: int):
    ns = nodes_of(w, si)
    return rng.choice(ns) if ns else None


def ref_of(si: int, m: MNode) -> str:
    return f"T{si}" if m.is_root() else m.uid


def pick_parent(rng, w: World, si: int, shape=None) -> MNode:
    mt = w.slots[si].model
    ns = mt.nodes()
    if ns and shape == "deep" and rng.random() < 0.8:
        cand = ns[-1] if rng.random() < 0.5 else max(ns, key=lambda n: n.depth())
        if cand.depth() < 300:  # observers recurse; stay far below the interpreter limit
            return cand
    if ns and shape == "wide" and rng.random() < 0.8:
        return ns[0] if rng.random() < 0.6 else mt.root
    if not ns or rng.random() < 0.25:
        return mt.root
    return rng.choice(ns)


def pick_data_src(rng, cfg, w: World, si: int) -> dict:
    ns = nodes_of(w, si)
    if cfg.get("shape") and "s" in cfg["flavours"] and rng.random() < 0.7:
        return {"data": f"s:L{rng.randrange(400)}"}  # many distinct labels for big trees
    if ns and rng.random() < cfg["p_reuse"]:
        return {"data_of": rng.choice(ns).uid}
    flav = cfg["flavours"]
    if "x" in flav and w.slots[si].model.flavour not in ("hook", "thook"):
        flav = [f for f in flav if f != "x"] or ["s"]  # (a loaded tree has no id callback)
    f = rng.choice(flav)
    return {"data": rng.choice(_keys_of_flavour(f, cfg))}


def pick_before(rng, P: MNode, allow_int=True):
    r = rng.random()
    n = len(P.children)
    if r < 0.35 or "before" == "":
        return "absent"
    if r < 0.45:
        return None
    if r < 0.52:
        return False
    if r < 0.65:
        return True
    if r < 0.72 and allow_int:
        return 0
    if r < 0.82 and allow_int and n >= 2:
        return rng.randrange(1, n)
    if n:
        return {"node": rng.choice(P.children).uid}
    return "absent"


def other_node_not_child(rng, w: World, si: int, P: MNode):
    cands = [m for m in nodes_of(w, si) if m.parent is not P]
    others = [j for j in live_slots(w) if j != si and nodes_of(w, j)]
    if others and rng.random() < 0.3:
        # a node of another tree (possibly of another tree class) as position
        return rng.choice(nodes_of(w, rng.choice(others)))
    if not cands:
        return None
    # prefer a foreign node that equals (same data / data_id) one of P's children:
    # validation by `in`/`==` instead of identity would let it pass
    kid_ids = {c.did for c in P.children}
    alike = [m for m in cands if m.did in kid_ids]
    if alike and rng.random() < 0.6:
        return rng.choice(alike)
    return rng.choice(cands)


# ------------------------------------------------------------------------------
# op generators
# ------------------------------------------------------------------------------
def gen_add(rng, cfg, w: World, opid: int, invalid: bool, steer: bool):
    si = pick_slot(rng, w)
    mt = w.slots[si].model
    op = {"id": opid, "k": "add"}
    api = rng.choices(
        ["add", "append_child", "prepend_child", "append_sibling", "prepend_sibling"],
        weights=[60, 8, 10, 11, 11])[0]
    ns = mt.nodes()
    if api in ("append_sibling", "prepend_sibling"):
        if not ns:
            api = "add"
        else:
            self_m = rng.choice(ns)
            op["parent"] = self_m.uid
            P = self_m.parent
    if api not in ("append_sibling", "prepend_sibling"):
        P = pick_parent(rng, w, si, cfg.get("shape"))
        if P.is_root() and api != "add":
            api = "add"  # the shortcuts exist on nodes only
        op["parent"] = ref_of(si, P)
    op["api"] = api

    # source
    r = rng.random()
    src_kind = "data"
    p_node = cfg.get("p_node_src", 0.22)
    p_tree = cfg.get("p_tree_src", 0.06)
    if r < p_node and (ns or len(live_slots(w)) > 1):
        src_kind = "node"
    elif r < p_node + p_tree and api == "add" and len(live_slots(w)) > 1:
        src_kind = "tree"
    tree_collide = []
    if steer and P.children and api == "add":
        kid_ids = {c.did for c in P.children}
        for j in live_slots(w):
            if j != si and any(t.did in kid_ids for t in w.slots[j].model.root.children):
                tree_collide.append(j)
    if tree_collide and rng.random() < 0.7:
        # collision steering: a whole tree one of whose top nodes collides
        op["src"] = {"tree": f"T{rng.choice(tree_collide)}"}
        src_kind = None
    elif steer and P.children:
        # collision steering: re-use a child's data / copy a child's clone
        c = rng.choice(P.children)
        if rng.random() < 0.6:
            op["src"] = {"data_of": c.uid}
            if c.explicit:
                op["data_id"] = c.did
            if rng.random() < 0.3:
                op["node_id"] = 30_000_000 + opid  # refused adds must not leak the id
        else:
            op["src"] = {"node": c.uid}
            if rng.random() < 0.3:
                op["deep"] = True
        src_kind = None
    if src_kind == "data":
        op["src"] = pick_data_src(rng, cfg, w, si)
        if cfg["ids"] and rng.random() < cfg["p_explicit_id"]:
            op["data_id"] = rng.choice(cfg["ids"])
        if rng.random() < 0.03:
            op["node_id"] = 20_000_000 + opid
    elif src_kind == "node":
        sj = rng.choice(live_slots(w)) if rng.random() < 0.35 else si
        cand = nodes_of(w, sj)
        if not cand:
            op["src"] = pick_data_src(rng, cfg, w, si)
        else:
            srcn = rng.choice(cand)
            self_copy = False
            if sj == si and not P.is_root() and rng.random() < 0.08:
                # a branch copied below itself: onto the node itself or from an ancestor
                chain = [P]
                while chain[-1].parent is not None and not chain[-1].parent.is_root():
                    chain.append(chain[-1].parent)
                srcn = rng.choice(chain[:3])
                self_copy = True
            op["src"] = {"node": srcn.uid}
            if rng.random() < (0.3 if invalid else 0.06):
                # data_id= with a node source must match the source's id
                if srcn.explicit and rng.random() < 0.5:
                    op["data_id"] = srcn.did
                elif cfg["ids"]:
                    op["data_id"] = rng.choice(cfg["ids"])
            dr = rng.random()
            if dr < 0.35 or (self_copy and dr < 0.85):
                op["deep"] = True
            elif dr < 0.45:
                op["deep"] = False
            if rng.random() < 0.04:
                op["node_id"] = 10_000_000 + opid
    elif src_kind == "tree":
        others = [j for j in live_slots(w) if j != si]
        op["src"] = {"tree": f"T{rng.choice(others)}"}
        dr = rng.random()
        if dr < 0.15:
            op["deep"] = False
        elif dr < 0.3:
            op["deep"] = True
    if mt.typed and api in ("add", "append_child", "prepend_child") and rng.random() < 0.8:
        op["kind"] = rng.choice(cfg["kinds"])
        if invalid and "tree" not in op.get("src", {}) and rng.random() < 0.3:
            op["kind"] = 7  # "kind: str": a non-string is not a legal kind
    if api == "add":
        b = pick_before(rng, P)
        if invalid and rng.random() < 0.5:
            o = other_node_not_child(rng, w, si, P)
            if o is not None:
                b = {"node": o.uid}
        if b != "absent":
            op["before"] = b
    if invalid and "node" in op.get("src", {}) and rng.random() < 0.3:
        if rng.random() < 0.5:
            op["deep"] = True
            op["data_id"] = rng.choice(IDS)
        else:
            op["data_id"] = "#other"
    return op


def gen_move(rng, cfg, w: World, opid: int, invalid: bool, steer: bool):
    si = pick_slot(rng, w)
    mt = w.slots[si].model
    nm = pick_node(rng, w, si)
    if nm is None:
        return None
    if invalid and rng.random() < 0.5:
        special = [n for n in mt.nodes() if n.explicit and n.children]
        if special:
            nm = rng.choice(special)  # nodes with explicit (possibly reserved-looking) ids
    op = {"id": opid, "k": "move", "node": nm.uid}
    if invalid and rng.random() < 0.12:
        # "move me before myself" below my own parent: refusing or doing nothing are
        # both fine, detaching the node is not
        op["target"] = ref_of(si, nm.parent)
        op["before"] = {"node": nm.uid}
        return op
    if invalid and rng.random() < 0.5:
        r = rng.random()
        desc = list(nm.iter_pre())
        if r < 0.5:
            t = rng.choice(desc) if desc and rng.random() < 0.7 else nm
            op["target"] = t.uid
            return op
        others = [j for j in live_slots(w) if j != si]
        if others and r < 0.8:
            sj = rng.choice(others)
            t = pick_parent(rng, w, sj)
            op["target"] = ref_of(sj, t)
            return op
    if steer:
        # target that already holds a child with the same data_id
        cands = [c.parent for c in mt.carriers(nm.did) if c is not nm and c.parent is not nm.parent
                 and not (c.parent is nm or c.parent.is_descendant_of(nm))]
        if cands:
            t = rng.choice(cands)
            op["target"] = ref_of(si, t)
            return op
    t = pick_parent(rng, w, si)
    if not invalid:
        for _ in range(4):
            if t is nm or t.is_descendant_of(nm):
                t = pick_parent(rng, w, si)
    op["target"] = ref_of(si, t)
    same_parent = t is nm.parent
    b = pick_before(rng, t, allow_int=not same_parent)
    if isinstance(b, dict) and b["node"] == nm.uid and not invalid:
        b = "absent"
    if invalid and rng.random() < 0.15:
        b = {"node": nm.uid}
    if invalid and rng.random() < 0.4:
        o = other_node_not_child(rng, w, si, t)
        if o is not None and o is not nm:
            b = {"node": o.uid}
    if b != "absent":
        op["before"] = b
    return op


def gen_remove(rng, cfg, w: World, opid: int, invalid: bool, steer: bool):
    si = pick_slot(rng, w)
    mt = w.slots[si].model
    nm = pick_node(rng, w, si)
    if nm is None:
        return None
    if steer:
        cands = [n for n in mt.nodes() if n.children and
                 any(c.did in [s.did for s in n.parent.children if s is not n] for c in n.children)]
        if cands:
            nm = rng.choice(cands)
            return {"id": opid, "k": "remove", "node": nm.uid, "keep_children": True}
    # clone groups with one member below another: un-nesting all of them at once is
    # where per-clone checks and the final structure differ
    nested = [n for n in mt.nodes()
              if any(o is not n and (o.is_descendant_of(n) or n.is_descendant_of(o))
                     for o in mt.group_of(n))]
    if nested and rng.random() < (0.7 if (steer or invalid) else 0.25):
        return {"id": opid, "k": "remove", "node": rng.choice(nested).uid,
                "keep_children": True, "with_clones": True}
    # prefer clones sometimes
    clones = [n for n in mt.nodes() if len(mt.group_of(n)) > 1]
    if clones and rng.random() < 0.4:
        nm = rng.choice(clones)
    op = {"id": opid, "k": "remove", "node": nm.uid}
    r = rng.random()
    if r < 0.25:
        op["keep_children"] = True
    elif r < 0.3:
        op["keep_children"] = False
    r = rng.random()
    if r < 0.25:
        op["with_clones"] = True
    elif r < 0.3:
        op["with_clones"] = False
    return op


def gen_remove_children(rng, cfg, w, opid, invalid, steer):
    si = pick_slot(rng, w)
    nm = pick_node(rng, w, si)
    if nm is None:
        return None
    return {"id": opid, "k": "remove_children", "node": nm.uid}


def gen_clear(rng, cfg, w, opid, invalid, steer):
    return {"id": opid, "k": "clear", "slot": pick_slot(rng, w)}


def gen_del(rng, cfg, w: World, opid, invalid, steer):
    si = pick_slot(rng, w)
    mt = w.slots[si].model
    ns = mt.nodes()
    op = {"id": opid, "k": "del", "slot": si}
    r = rng.random()
    if invalid and r < 0.2 and ns:
        op["key"] = {"node": rng.choice(ns).uid}
    elif ns and r < 0.75:
        n = rng.choice(ns)
        if isinstance(n.did, str) and n.explicit and rng.random() < 0.5:
            op["key"] = {"did": n.did}
        else:
            op["key"] = {"data_of": n.uid}
    else:
        op["key"] = pick_data_src(rng, cfg, w, si)
    return op


def gen_sort(rng, cfg, w: World, opid, invalid, steer):
    si = pick_slot(rng, w)
    if rng.random() < 0.5:
        tgt = f"T{si}"
    else:
        nm = pick_node(rng, w, si)
        tgt = nm.uid if nm is not None else f"T{si}"
    op = {"id": opid, "k": "sort", "target": tgt}
    k = rng.choice([None, None, "len", "rev", "const"])
    if k is not None:
        op["key"] = k
    if rng.random() < 0.5:
        op["reverse"] = rng.random() < 0.6
    r = rng.random()
    if r < 0.3:
        op["deep"] = True
    elif r < 0.45:
        op["deep"] = False
    return op


def gen_set_data(rng, cfg, w: World, opid, invalid, steer):
    si = pick_slot(rng, w)
    mt = w.slots[si].model
    nm = pick_node(rng, w, si)
    if nm is None:
        return None
    clones = [n for n in mt.nodes() if len(mt.group_of(n)) > 1]
    if clones and rng.random() < 0.5:
        nm = rng.choice(clones)
    op = {"id": opid, "k": "set_data", "node": nm.uid}
    if rng.random() < 0.15:
        op["api"] = "rename"
        op["name"] = rng.choice(cfg["labels"])
        return op
    sibs = [s for s in nm.parent.children if s is not nm]
    if steer and sibs:
        s = rng.choice(sibs)
        if rng.random() < 0.5:
            op["data"] = {"data_of": s.uid}
            if s.explicit:
                op["data_id"] = s.did
        else:
            op["data_id"] = s.did
            if rng.random() < 0.5:
                op["data"] = {"data_of": s.uid}
    else:
        r = rng.random()
        if r < 0.6:
            op["data"] = pick_data_src(rng, cfg, w, si)
            if cfg["ids"] and rng.random() < 0.25:
                op["data_id"] = rng.choice(cfg["ids"])
        elif r < 0.9 and cfg["ids"]:
            op["data_id"] = rng.choice(cfg["ids"])
        elif not invalid:
            op["data"] = pick_data_src(rng, cfg, w, si)
    is_clone = len(mt.group_of(nm)) > 1
    r = rng.random()
    if is_clone and not (invalid and r < 0.3):
        op["with_clones"] = rng.random() < 0.5
    elif r < 0.2:
        op["with_clones"] = rng.choice([True, False, None])
    return op


def gen_meta(rng, cfg, w: World, opid, invalid, steer):
    si = pick_slot(rng, w)
    nm = pick_node(rng, w, si)
    if nm is None:
        return None
    op = {"id": opid, "k": "meta", "node": nm.uid}
    r = rng.random()
    keys = ["a", "b", "c"]
    if r < 0.45:
        op["fn"] = "set"
        op["key"] = rng.choice(keys)
        op["value"] = rng.choice([1, 2, "x", None])
    elif r < 0.75:
        op["fn"] = "update"
        if rng.random() < 0.4:
            op["shared"] = rng.choice(["d1", "d2"])
            op["values"] = {"d1": {"a": 1, "b": "y"}, "d2": {"c": 2}}[op["shared"]]
        else:
            op["values"] = {k: rng.choice([1, 2, "y"])
                            for k in rng.sample(keys, rng.choice([0, 1, 1, 1, 2, 2, 2, 2]))}
        op["replace"] = rng.random() < 0.4
    else:
        op["fn"] = "clear"
        if rng.random() < 0.6:
            op["key"] = rng.choice(keys)
    return op


VERDICT_WEIGHTS = {"T": 30, "F": 30, "N": 8, "SK": 10, "SKself": 7, "SEL": 8, "STOP": 3}


def gen_verdicts(rng, start: MNode, avoid=()):
    names = [v for v in VERDICT_WEIGHTS if v not in avoid]
    weights = [VERDICT_WEIGHTS[v] for v in names]
    # swarm: a run of a filter often uses only a few verdict kinds
    if rng.random() < 0.5:
        keep = rng.sample(names, rng.randint(2, min(4, len(names))))
        weights = [wt if n in keep else 0 for n, wt in zip(names, weights)]
        if not any(weights):
            weights = [1] * len(names)
    verdicts = {}
    for n in start.iter_pre():
        v = rng.choices(names, weights=weights)[0]
        if v in ("T", "F", "N"):
            verdicts[n.uid] = v
        else:
            mode = rng.choice(["ret", "raise", "raise_cls", "ret_cls"])
            verdicts[n.uid] = [v, mode]
    return verdicts


def gen_filter(rng, cfg, w: World, opid, invalid, steer):
    si = pick_slot(rng, w)
    if rng.random() < 0.6:
        start = w.slots[si].model.root
    else:
        start = pick_node(rng, w, si) or w.slots[si].model.root
    op = {"id": opid, "k": "filter", "target": ref_of(si, start)}
    if invalid and rng.random() < 0.3:
        op["no_predicate"] = True
        return op
    op["verdicts"] = gen_verdicts(rng, start, avoid=cfg.get("avoid_verdicts", ()))
    op["default"] = "F"
    return op


def gen_copy(rng, cfg, w: World, opid, invalid, steer):
    si = rng.choice(live_slots(w))
    op = {"id": opid, "k": "copy"}
    if rng.random() < 0.5:
        start = w.slots[si].model.root
    else:
        start = pick_node(rng, w, si) or w.slots[si].model.root
    op["src"] = ref_of(si, start)
    cands = [j for j in range(1, len(w.slots)) if j != si]
    if len(w.slots) < 3:
        cands.append(len(w.slots))
    if not cands:
        return None
    op["into"] = rng.choice(cands)
    r = rng.random()
    if r < cfg.get("p_copy_filtered", 0.4):
        op["api"] = rng.choice(["filtered", "copy"])
        if invalid and rng.random() < 0.2 and op["api"] == "filtered":
            op["no_predicate"] = True
            return op
        op["verdicts"] = gen_verdicts(rng, start, avoid=cfg.get("avoid_verdicts", ()))
        op["default"] = "F"
    if not start.is_root() and op.get("api") != "filtered" and rng.random() < 0.5:
        op["add_self"] = rng.random() < 0.5
    return op


def gen_copy_to(rng, cfg, w: World, opid, invalid, steer):
    si = rng.choice(live_slots(w))
    ti = rng.choice(live_slots(w))
    op = {"id": opid, "k": "copy_to"}
    if rng.random() < 0.25:
        op["src"] = f"T{si}"
    else:
        nm = pick_node(rng, w, si)
        if nm is None:
            return None
        op["src"] = nm.uid
        r = rng.random()
        if r < 0.3:
            op["add_self"] = False
        elif r < 0.4:
            op["add_self"] = True
    t = pick_parent(rng, w, ti)
    op["target"] = ref_of(ti, t)
    if op.get("add_self") is not False and not op["src"].startswith("T"):
        b = pick_before(rng, t)
        if b != "absent":
            op["before"] = b
    elif invalid and rng.random() < 0.3:
        op["before"] = True
    r = rng.random()
    if r < 0.4:
        op["deep"] = True
    elif r < 0.5:
        op["deep"] = False
    return op


def gen_restart(rng, cfg, w: World, opid, invalid, steer):
    si = pick_slot(rng, w)
    op = {"id": opid, "k": "restart", "slot": si}
    via = cfg.get("restart_via") or rng.choice(["file", "file", "dict"])
    op["via"] = via
    op["mapper_style"] = rng.choice(["inplace_ret", "inplace_none", "new", "new_bare",
                                     "new_data"])
    if cfg.get("dictwrapper_run") and rng.random() < 0.7:
        op["mapper_style"] = "shipped"
    if rng.random() < 0.3:
        op["deser_style"] = "consume"
    if via == "dict":
        op["json"] = rng.random() < 0.5
        op["with_mapper"] = rng.random() < 0.3
        return op
    op["key_map"] = rng.choice(["default", "off", "custom"])
    op["value_map"] = rng.choice(["default", "off", "custom", "custom", "custom_dup"])
    op["target"] = rng.choice(["path", "path", "stream"])
    if op["target"] == "path":
        c = rng.choice([None, None, False, True, "STORED", "DEFLATED", "BZIP2", "LZMA"])
        if c is not None:
            op["compression"] = c
    if rng.random() < 0.4:
        op["meta"] = {"foo": "bar", "n": opid}
        if rng.random() < 0.4:
            op["meta"]["$schema"] = "user"  # user metadata may use any key
    if rng.random() < 0.3:
        op["no_mapper"] = True
    if rng.random() < 0.3:
        op["auto_uncompress"] = True
    if rng.random() < 0.4:
        op["reuse_file_meta"] = True
    if rng.random() < (0.5 if op["key_map"] == "off" else 0.25):
        op["user_keys"] = True  # mapper fields named "s", "i", "k"
    return op


def gen_iter(rng, cfg, w: World, opid, invalid, steer):
    si = pick_slot(rng, w)
    op = {"id": opid, "k": "iter"}
    if rng.random() < 0.4:
        op["start"] = f"T{si}"
        op["method"] = rng.choice(["pre", "post", "level", "level_rtl", "zigzag", "zigzag_rtl",
                                   "random", "unordered"])
        if op["method"] == "random":
            op["prng"] = rng.randrange(1, 1000)
        if op["method"] == "pre" and rng.random() < 0.3:
            op["default_iter"] = True
    else:
        nm = pick_node(rng, w, si)
        if nm is None:
            op["start"] = f"T{si}"
        else:
            op["start"] = nm.uid
            if rng.random() < 0.6:
                op["add_self"] = rng.random() < 0.6
        op["method"] = rng.choice(["pre", "post", "level", "level_rtl", "zigzag", "zigzag_rtl"])
        if op["method"] == "pre" and "add_self" not in op and rng.random() < 0.3:
            op["default_iter"] = True
    return op


def gen_visit(rng, cfg, w: World, opid, invalid, steer):
    from .ops_read import SIGNALS

    si = pick_slot(rng, w)
    op = {"id": opid, "k": "visit"}
    start = w.slots[si].model.root
    if rng.random() < 0.6:
        nm = pick_node(rng, w, si)
        if nm is not None:
            start = nm
    op["start"] = ref_of(si, start)
    if not start.is_root() and rng.random() < 0.6:
        op["add_self"] = rng.random() < 0.6
    op["method"] = rng.choice(["pre", "pre", "post", "level", "level"])
    nodes = list(start.iter_pre(add_self=bool(op.get("add_self"))))
    sigs = {}
    if nodes and rng.random() < 0.8:
        n_sig = rng.choice([1, 1, 2, 3])
        skip_ok = op["method"] != "post"
        for n in rng.sample(nodes, min(n_sig, len(nodes))):
            names = [s for s in SIGNALS if skip_ok or not s.startswith("SKIP")]
            if rng.random() < 0.5:
                names = [s for s in names if s.startswith("SKIP")] or names
            sigs[n.uid] = [rng.choice(names)]
    op["signals"] = sigs
    if rng.random() < 0.3:
        op["memo"] = True
    op["value"] = rng.choice([7, "v", 0])
    return op


def gen_read(rng, cfg, w: World, opid, invalid, steer):
    si = pick_slot(rng, w)
    what = rng.choice(["save_stream", "to_dict_list", "to_dotfile", "find_match", "format",
                       "find_data"])
    op = {"id": opid, "k": "read", "slot": si, "what": what}
    if what == "find_match":
        op["label"] = rng.choice(cfg["labels"])
    if what == "find_data":
        op["src"] = pick_data_src(rng, cfg, w, si)
    return op


def gen_bulk_followup(rng, cfg, w: World, opid):
    """Operations that lean on the structure a bulk step created (very wide parent,
    very large clone group, very deep chain)."""
    b = cfg["bulk"]
    mt = w.slots[0].model
    made = [n for n in mt.nodes() if n.uid.startswith(f"n{b['at']}.")]
    if not made:
        return None
    first = made[0]
    hub = first.parent
    hub_ref = ref_of(0, hub)
    kind = b["kind"]
    r = rng.random()
    if kind == "clones":
        leaf_key = "s:" + cfg["labels"][0]
        leaves = [n for n in made if n.parent in made and not n.children]
        if r < 0.4:
            return {"id": opid, "k": "add", "api": "add", "parent": "T0", "src": {"data": leaf_key}}
        if r < 0.6 and leaves:
            return {"id": opid, "k": "move", "node": rng.choice(leaves).uid, "target": "T0"}
        if r < 0.8 and leaves:
            return {"id": opid, "k": "add", "api": "add", "parent": hub_ref,
                    "src": {"node": rng.choice(leaves).uid}}
        if leaves:
            return {"id": opid, "k": "remove", "node": rng.choice(leaves).uid,
                    "with_clones": rng.random() < 0.3}
        return None
    if kind == "wide":
        kids = [n for n in made if n.parent is hub]
        if r < 0.25:
            # reject a whole (very wide) level, or all but one child
            verdicts = {}
            keep = rng.choice(kids).uid if kids and rng.random() < 0.5 else None
            for n in hub.iter_pre():
                verdicts[n.uid] = "T" if n.uid == keep else "F"
            if not hub.is_root():
                verdicts[hub.uid] = "F"
            tgt = hub_ref if rng.random() < 0.5 else "T0"
            return {"id": opid, "k": "filter", "target": tgt, "verdicts": verdicts, "default": "F"}
        if r < 0.65 and cfg["ids"]:
            # a node with an explicit id next to / moved next to its twin below the wide parent
            xid = cfg["ids"][0]
            twins = [n for n in mt.nodes() if n.did == xid]
            if not any(t.parent is hub for t in twins):
                return {"id": opid, "k": "add", "api": "add", "parent": hub_ref,
                        "src": {"data": "s:" + cfg["labels"][0]}, "data_id": xid}
            outside = [t for t in twins if t.parent is not hub]
            if outside:
                return {"id": opid, "k": "move", "node": outside[0].uid, "target": hub_ref}
            other = [n for n in mt.nodes() if n.parent is not hub and n is not hub]
            par = rng.choice(other).uid if other else "T0"
            return {"id": opid, "k": "add", "api": "add", "parent": par,
                    "src": {"data": "s:" + cfg["labels"][-1]}, "data_id": xid}
        if r < 0.75 and kids:
            return {"id": opid, "k": "move", "node": rng.choice(kids).uid, "target": hub_ref,
                    "before": rng.choice([True, None, {"node": rng.choice(kids).uid}])}
        if r < 0.85:
            return {"id": opid, "k": "sort", "target": hub_ref, "reverse": rng.random() < 0.5}
        if not hub.is_root():
            return {"id": opid, "k": "remove", "node": hub.uid, "keep_children": True}
        return None
    # chain
    deepest = max(made, key=lambda n: n.depth())
    if r < 0.3 or (len(deepest.children) < 2 and r < 0.6):
        return {"id": opid, "k": "add", "api": "add", "parent": deepest.uid,
                "src": {"data": f"s:Z{opid}"}}
    if r < 0.55:
        tgt = "T0" if rng.random() < 0.5 else ("T1" if len(w.slots) > 1 and w.slots[1] else "T0")
        return {"id": opid, "k": "add", "api": "add", "parent": tgt, "src": {"node": first.uid},
                "deep": True}
    if r < 0.8:
        # copy-form / in-place filter that accepts only nodes near the bottom
        verdicts = {}
        for n in first.iter_pre(add_self=True):
            verdicts[n.uid] = "N"
        if deepest.children:
            # several accepted siblings at the very bottom, reached through undecided parents
            for c in deepest.children:
                verdicts[c.uid] = ["SEL", "ret"]
        else:
            verdicts[deepest.uid] = ["SEL", "ret"]
        if rng.random() < 0.5:
            into = 1 if len(w.slots) > 1 else len(w.slots)
            return {"id": opid, "k": "copy", "src": "T0", "into": max(into, 1), "api": "filtered",
                    "verdicts": verdicts, "default": "F"}
        return {"id": opid, "k": "filter", "target": "T0", "verdicts": verdicts, "default": "F"}
    return {"id": opid, "k": "copy", "src": first.uid, "into": 1 if len(w.slots) > 1 else len(w.slots)}


def gen_fromdict(rng, cfg, w: World, opid, invalid, steer):
    si = pick_slot(rng, w)
    mt = w.slots[si].model
    leaves = [n for n in mt.root.iter_pre() if not n.children]
    if not mt.root.children:
        target = mt.root
    elif leaves:
        target = rng.choice(leaves)
    else:
        return None
    budget = [rng.randint(1, 6)]

    def items(depth):
        out = []
        for _ in range(rng.randint(1, 3)):
            if budget[0] <= 0:
                break
            budget[0] -= 1
            src = pick_data_src(rng, cfg, w, si)
            did = None
            if cfg["ids"] and rng.random() < cfg["p_explicit_id"]:
                did = rng.choice(cfg["ids"])
            kids = items(depth + 1) if depth < 3 and rng.random() < 0.5 else []
            out.append([src, did, kids])
        if (invalid or steer) and out and rng.random() < 0.7:
            # a second sibling with the same data (and id): refused as a whole
            dup = rng.choice(out)
            out.insert(rng.randint(0, len(out)), [dup[0], dup[1], []])
        return out

    op = {"id": opid, "k": "fromdict", "node": ref_of(si, target), "items": items(0)}
    if rng.random() < 0.4:
        op["mapper"] = True
    if rng.random() < 0.2:
        op["empty_children_key"] = True  # leaves carry "children": []
    return op


GENERATORS = {
    "fromdict": gen_fromdict,
    "add": gen_add, "move": gen_move, "remove": gen_remove,
    "remove_children": gen_remove_children, "clear": gen_clear, "del": gen_del,
    "sort": gen_sort, "set_data": gen_set_data, "meta": gen_meta, "filter": gen_filter,
    "copy": gen_copy, "copy_to": gen_copy_to, "restart": gen_restart,
    "iter": gen_iter, "visit": gen_visit, "read": gen_read,
}

FAULT_CBS = {
    "add": ["hook"], "set_data": ["hook"], "del": ["hook"], "sort": ["key"],
    "filter": ["pred"], "copy": ["pred"], "visit": ["visitor"], "restart": ["mapper"],
    "fromdict": ["mapper"],
}

READ_FAULT_CBS = {
    "save_stream": ["mapper", "io"], "to_dict_list": ["mapper"], "to_dotfile": ["mapper", "io"],
    "find_match": ["match"], "format": ["repr"], "find_data": ["hook"],
}


def gen_op(rng, frng, cfg, w: World, opid: int):
    """Draw one operation record from the current model state."""
    total = sum(s.model.count() for s in w.slots if s is not None)
    weights = dict(cfg["weights"])
    if total >= cfg["max_nodes"]:
        weights["add"] = weights.get("add", 0) * 0.05
    b = cfg.get("bulk")
    if b and opid == b["at"] and w.slots[0].model.flavour != "fs":
        mt = w.slots[0].model
        ns = mt.nodes()
        parent = "T0" if (not ns or rng.random() < 0.4) else rng.choice(ns).uid
        op = {"id": opid, "k": "bulk", "parent": parent, "n": b["n"]}
        if b["kind"] == "chain":
            op["chain"] = True
        elif b["kind"] == "clones":
            op["clone_leaf"] = "s:" + cfg["labels"][0]
        return op
    if b and opid > b["at"] and rng.random() < 0.6 and w.slots[0] is not None \
            and w.slots[0].model.flavour != "fs":
        op = gen_bulk_followup(rng, cfg, w, opid)
        if op is not None:
            return op
    if total == 0:
        kind = "add"
    else:
        kinds = [k for k in weights if weights[k] > 0 and k in GENERATORS]
        kind = rng.choices(kinds, weights=[weights[k] for k in kinds])[0]
    invalid = rng.random() < cfg["p_refuse"]
    steer = rng.random() < cfg["p_steer"]
    op = GENERATORS[kind](rng, cfg, w, opid, invalid, steer)
    if op is None:
        op = gen_add(rng, cfg, w, opid, False, False)
    # callback fault: drawn from its own stream so removing ops never shifts it
    if cfg["p_fault"] and frng.random() < cfg["p_fault"]:
        cbs = FAULT_CBS.get(op["k"], [])
        if op["k"] == "read":
            cbs = READ_FAULT_CBS.get(op["what"], [])
        if op["k"] == "sort" and "key" not in op:
            cbs = []
        if cbs:
            op["fault"] = {"cb": frng.choice(cbs), "at": frng.randint(1, 6)}
    return op
