"""Refinement and index oracles: real tree vs. reference model."""
from __future__ import annotations

from .model import MNode
from .world import (
    Violation,
    World,
    model_shape,
    real_children,
    real_shape,
)


def compare_slot(w: World, slot_idx: int, owner: str, trigger: str, *, bind=True):
    """Lock-step walk: the observable state of the real tree must equal the
    model's.  Unbound model uids are bound to the real node found at their place
    (which must be a node never seen before)."""
    slot = w.slots[slot_idx]
    real_tree = slot.real

    def fail(check, detail):
        detail = (
            f"{detail}; expected {model_shape(w, slot.model)!r} "
            f"got {real_shape(real_tree, w)!r}"
        )
        raise Violation(owner, check, detail, trigger)

    def walk(m: MNode, r_obj, r_parent, path):
        rkids = real_children(r_obj)
        if len(rkids) != len(m.children):
            fail("shape", f"{len(rkids)} children at {path}, expected {len(m.children)}")
        for mc, rc in zip(m.children, rkids):
            known = w.real_of.get(mc.uid)
            if known is not None:
                if known is not rc:
                    fail("shape", f"wrong node at {path}/{mc.uid} (order/placement)")
            else:
                if id(rc) in w.uid_of:
                    fail("shape", f"expected a new node at {path}/{mc.uid}, found an existing one")
                if not bind:
                    fail("shape", f"unknown node at {path}/{mc.uid}")
                w.bind(mc.uid, rc)
            if rc.data is not mc.data:
                fail("data", f"data object of {mc.uid} differs")
            if rc.data_id != mc.did:
                fail("data_id", f"data_id of {mc.uid} differs ({w.did_sym(mc)} expected)")
            if slot.model.typed:
                if getattr(rc, "kind", None) != mc.kind:
                    fail("kind", f"kind of {mc.uid} is {getattr(rc, 'kind', None)!r}, "
                                 f"expected {mc.kind!r}")
            meta = rc.meta
            if meta != (mc.meta or None):  # "the metadata dictionary or None if empty"
                fail("meta", f"meta of {mc.uid} is {meta!r}, expected {mc.meta!r}")
            if mc.nid is not None and rc.node_id != mc.nid:
                fail("node_id", f"node_id of {mc.uid} is not the explicit id it was given")
            if rc.parent is not r_parent:
                fail("parent", f"parent of {mc.uid} differs")
            if rc.tree is not real_tree:
                fail("owner", f"tree of {mc.uid} differs")
            walk(mc, rc, rc, f"{path}/{mc.uid}")

    walk(slot.model.root, real_tree, None, "")
    n_model = slot.model.count()
    if real_tree.count != n_model or len(real_tree) != n_model:
        fail("count", f"tree reports {real_tree.count} nodes (len {len(real_tree)}), "
                      f"the documented effect leaves {n_model}")


def check_removed(w: World, slot_idx: int):
    """C01: removed nodes are neither reachable nor counted nor found by id."""
    slot = w.slots[slot_idx]
    for uid, (node, nid, s) in w.removed.items():
        if s != slot_idx or nid is None:
            continue
        got = slot.real.find_first(node_id=nid)
        if got is not None:
            raise Violation("C01", "removed", f"removed node {uid} still found by node_id")


def check_index(w: World, slot_idx: int, probe_dids=(), probe_data=()):
    """C02: lookups / clone queries == carriers computed by walking the real tree.

    The walk result is the ground truth of "nodes currently in the tree"; the
    model supplies the expected data_id of every node (explicit / hook / hash)
    and the absent ids and data objects to probe."""
    slot = w.slots[slot_idx]
    tree = slot.real
    mt = slot.model
    by_did: dict[object, list] = {}
    order = []

    def rec(obj):
        for c in real_children(obj):
            order.append(c)
            by_did.setdefault(c.data_id, []).append(c)
            rec(c)

    rec(tree)

    def same_set(got, exp):
        if len(got) != len(exp):
            return False
        a = sorted(id(x) for x in got)
        b = sorted(id(x) for x in exp)
        return a == b and len(set(a)) == len(a)

    def fail(detail, trig="index"):
        raise Violation("C02", "index", detail, trig)

    # data_id rule
    for m in mt.root.iter_pre():
        r = w.real_of.get(m.uid)
        if r is None:
            continue
        exp = m.did
        if r.data_id != exp:
            fail(f"data_id of {m.uid} is not {w.did_sym(m)}", "data_id-rule")

    if tree.count_unique != len(by_did):
        fail(f"count_unique={tree.count_unique}, {len(by_did)} distinct ids in tree")

    dids = list(by_did.keys())
    for d in probe_dids:
        if d not in by_did:
            dids.append(d)
    for d in dids:
        exp = by_did.get(d, [])
        got = tree.find_all(data_id=d)
        if not same_set(got, exp):
            fail(f"find_all(data_id=) returns {len(got)} nodes, {len(exp)} carriers in tree"
                 f" (or wrong nodes)")
        # the result belongs to the caller: changing it must not change the tree
        got.clear()
        got.append(None)
        if not same_set(tree.find_all(data_id=d), exp):
            fail("the list returned by find_all(data_id=) is the index itself "
                 "(changing it changes later lookups)", "index/result-aliases-index")
        if len(exp) > 1:
            for k in (1, len(exp) - 1, len(exp), len(exp) + 1):
                sub = tree.find_all(data_id=d, max_results=k)
                ids = {id(x) for x in exp}
                if any(id(x) not in ids for x in sub):
                    fail("find_all(data_id=, max_results=) returns a non-carrier")
                if len(sub) != min(k, len(exp)) or len({id(x) for x in sub}) != len(sub):
                    fail(f"find_all(data_id=, max_results={k}) returns {len(sub)} nodes of "
                         f"{len(exp)} carriers", "index/max_results")
        ff = tree.find_first(data_id=d)
        if exp:
            if ff is None or all(ff is not x for x in exp):
                fail("find_first(data_id=) returns no carrier")
        elif ff is not None:
            fail("find_first(data_id=) returns a node for an absent id")

    # tree[<data_id>] for string ids that are not at the same time node data
    data_strs = {c.data for c in order if isinstance(c.data, str)}
    for d, exp in by_did.items():
        if not isinstance(d, str) or d in data_strs or not d:
            continue
        try:
            one = tree[d]
        except KeyError:
            fail(f"tree[data_id] raises KeyError, {len(exp)} carriers")
        except w.nt.AmbiguousMatchError:
            if len(exp) < 2:
                fail(f"tree[data_id] ambiguous, {len(exp)} carriers")
        else:
            if len(exp) != 1 or one is not exp[0]:
                fail(f"tree[data_id] returned a node, {len(exp)} carriers")
        if not (d in tree):
            pass  # `in` resolves data, not ids (C09)

    # by data object
    seen_data = {}
    for c in order:
        seen_data.setdefault(id(c.data), c.data)
    for obj in probe_data:
        seen_data.setdefault(id(obj), obj)
    for obj in seen_data.values():
        try:
            d = mt.rule(obj)
        except TypeError:
            continue
        exp = by_did.get(d, [])
        got = tree.find_all(obj)
        if not same_set(got, exp):
            fail(f"find_all({w.dkey(obj)}) returns {len(got)} nodes, {len(exp)} carriers")
        ff = tree.find_first(obj)
        if exp:
            if ff is None or all(ff is not x for x in exp):
                fail(f"find_first({w.dkey(obj)}) returns no carrier")
        elif ff is not None:
            fail(f"find_first({w.dkey(obj)}) finds a node for absent data")
        if bool(obj in tree) != bool(exp):
            fail(f"({w.dkey(obj)} in tree) is {obj in tree}, {len(exp)} carriers")
        # tree[key]: unique carrier, or raise
        if isinstance(obj, int) or (isinstance(obj, str) and obj in by_did):
            continue  # int keys resolve node_id first, str keys data_id first (C09)
        try:
            one = tree[obj]
        except KeyError:
            if exp:
                fail(f"tree[{w.dkey(obj)}] raises KeyError, {len(exp)} carriers")
        except w.nt.AmbiguousMatchError:
            if len(exp) < 2:
                fail(f"tree[{w.dkey(obj)}] ambiguous, {len(exp)} carriers")
        else:
            if len(exp) != 1 or one is not exp[0]:
                fail(f"tree[{w.dkey(obj)}] returned a node, {len(exp)} carriers")

    # branch-scoped lookups: Node.find_all / find_first see the carriers below the node
    with_kids = [c for c in order if real_children(c)]
    # (the invisible root is a branch as well: `tree.system_root.find_first(...)`)
    roots = [tree.system_root] if order else []
    for b in (roots + with_kids[:1] + with_kids[len(with_kids) // 2:len(with_kids) // 2 + 1]):
        below: dict[object, list] = {}
        sub_order = []

        def rec2(obj):
            for c in real_children(obj):
                sub_order.append(c)
                below.setdefault(c.data_id, []).append(c)
                rec2(c)

        rec2(b)
        # (a sample: each branch lookup walks the whole branch)
        falsy = [d for d in below if not d]
        multi = [d for d in below if d and len(below[d]) > 1][:3]
        rest = [d for d in below if d and len(below[d]) == 1][:3]
        d_sample = falsy + multi + rest + [d for d in dids if d not in below][:3]
        for d in d_sample:
            exp = below.get(d, [])
            got = b.find_all(data_id=d)
            if not same_set(got, exp):
                fail(f"node.find_all(data_id=) returns {len(got)} nodes, {len(exp)} carriers "
                     f"below the node", "node-lookup")
            ff = b.find_first(data_id=d)
            if (ff is None) != (not exp) or (exp and all(ff is not x for x in exp)):
                fail("node.find_first(data_id=) wrong", "node-lookup")
            if len(exp) > 1:
                k = len(exp) - 1
                sub = b.find_all(data_id=d, max_results=k)
                if len(sub) != k or any(all(x is not y for y in exp) for x in sub):
                    fail(f"node.find_all(data_id=, max_results={k}) returns {len(sub)} of "
                         f"{len(exp)} carriers below the node", "node-lookup/max_results")
        for obj in list(seen_data.values())[:8]:
            try:
                d = mt.rule(obj)
            except TypeError:
                continue
            exp = below.get(d, [])
            got = b.find_all(obj)
            if not same_set(got, exp):
                fail(f"node.find_all({w.dkey(obj)}) returns {len(got)} nodes, {len(exp)} "
                     f"carriers below the node", "node-lookup")

    # clone queries per node (big trees: every 7th node, plus the first 50)
    sample = order if len(order) <= 400 else order[:50] + order[50::7]
    for c in sample:
        exp = by_did[c.data_id]
        got = c.get_clones()
        if not same_set(got, [x for x in exp if x is not c]):
            fail("get_clones() differs from the other carriers of the id")
        got = c.get_clones(add_self=True)
        if not same_set(got, exp):
            fail("get_clones(add_self=True) differs from the carriers of the id")
        if bool(c.is_clone()) != (len(exp) > 1):
            fail("is_clone() wrong")
        if tree.find_first(node_id=c.node_id) is not c:
            fail("find_first(node_id=) wrong")


def adopt(w: World, slot_idx: int, bound: str, owner="C13", trigger=""):
    """After an escaped callback fault in a mutating op the documented
    post-state is unspecified: check the op specific bound, then adopt the real
    state into the model.

    bound: 'permute' - every parent keeps its child multiset (sort)
           'subset'  - surviving nodes keep parent and relative order (filter)
    """
    slot = w.slots[slot_idx]
    mt = slot.model
    removed = []

    def fail(detail):
        raise Violation(owner, "fault-bound", detail, trigger)

    if isinstance(bound, tuple) and bound[0] == "grow":
        # a bulk insert below one (previously empty) node was interrupted: every old
        # node is where it was; below the target there may be new nodes, which hold
        # data of the interrupted call.  The model takes them over.
        _, target_uid, opid, allowed = bound
        target = mt.find_uid(target_uid)
        rt = slot.real._root if target.is_root() else w.real_of.get(target_uid)
        k = [0]

        def take(m: MNode, r_obj):
            for rc in real_children(r_obj):
                if id(rc) in w.uid_of:
                    fail("an existing node moved below the target of the interrupted call")
                if not any(rc.data is a for a in allowed):
                    fail("node with foreign data below the target of the interrupted call")
                try:
                    explicit = rc.data_id != mt.rule(rc.data)
                except TypeError:
                    explicit = True
                mc = MNode(f"n{opid}.f{k[0]}", rc.data, rc.data_id, explicit=explicit,
                           kind=getattr(rc, "kind", None) if mt.typed else None)
                k[0] += 1
                m.insert(mc, None)
                w.bind(mc.uid, rc)
                take(mc, rc)

        take(target, rt)
        compare_slot(w, slot_idx, owner, trigger, bind=False)
        return removed

    if bound == "free":
        # structure is unspecified: every reachable node must be a known node of this
        # slot (no new nodes), data / ids unchanged; the model takes over the shape
        known = {m.uid: m for m in mt.root.iter_pre()}
        seen = set()

        def rebuild(m: MNode, r_obj):
            kids = []
            for rc in real_children(r_obj):
                uid = w.uid_of.get(id(rc))
                if uid is None or uid not in known:
                    fail("unknown node in the tree")
                if uid in seen:
                    fail("node reachable twice")
                seen.add(uid)
                mc = known[uid]
                if rc.data is not mc.data or rc.data_id != mc.did:
                    fail(f"data / data_id of {uid} changed")
                kids.append((mc, rc))
            m.children = [k[0] for k in kids]
            for mc, rc in kids:
                mc.parent = m
                rebuild(mc, rc)

        rebuild(mt.root, slot.real)
        for uid, m in known.items():
            if uid not in seen:
                removed.append(m)
                m.parent = None
        return removed

    def rec(m: MNode, r_obj):
        rkids = real_children(r_obj)
        uids = []
        for rc in rkids:
            uid = w.uid_of.get(id(rc))
            if uid is None:
                fail("unknown node in tree after a callback fault")
            uids.append(uid)
        by_uid = {c.uid: c for c in m.children}
        for u in uids:
            if u not in by_uid:
                fail(f"node {u} changed its parent after a callback fault")
        if len(set(uids)) != len(uids):
            fail("node twice in child list after a callback fault")
        if bound == "permute":
            if len(uids) != len(m.children):
                fail("child multiset changed by a failed sort")
        else:
            old_order = [c.uid for c in m.children if c.uid in set(uids)]
            if old_order != uids:
                fail("relative order changed by a failed filter")
            for c in m.children:
                if c.uid not in set(uids):
                    removed.append(c)
                    removed.extend(c.iter_pre())
                    c.parent = None
        m.children = [by_uid[u] for u in uids]
        for mc, rc in zip(m.children, rkids):
            rec(mc, rc)

    rec(mt.root, slot.real)
    return removed
