"""SchedSim: deterministic execution of real threads.

Each simulated thread is a real `threading.Thread`; exactly one of them runs at
any time.  The scheduler (caller of `run`) hands a baton to the thread chosen by
the seeded PRNG and waits until the baton comes back.  Yield points are

  * every SimRLock/SimLock acquire and release,
  * explicit `pause()` calls of the harness,
  * `line` events of frames whose code lives in the nutree package (taken with
    probability `p_line`; `sys.settrace` is installed per simulated thread).

Who runs next is always `rng.randrange(len(runnable))` - no real thread ever
races another, so one seed is one exactly repeatable schedule.
"""
from __future__ import annotations

import os
import sys
import threading


class _Abort(BaseException):
    """Injected into parked threads to unwind them when a run is aborted."""


class Deadlock(Exception):
    pass


class StepCap(Exception):
    pass


class SimThread:
    def __init__(self, sched, name, fn):
        self.sched = sched
        self.name = name
        self.fn = fn
        self.go = threading.Semaphore(0)
        self.done = False
        self.blocked_on = None
        self.exc = None
        self.result = None
        self.stalled_for = 0
        self.thread = threading.Thread(target=self._body, name=name, daemon=True)

    def _body(self):
        self.go.acquire()
        sched = self.sched
        try:
            if sched.aborted:
                raise _Abort()
            if sched.p_line > 0 or sched.trace_always:
                sys.settrace(sched._tracer)
            try:
                self.result = self.fn()
            finally:
                sys.settrace(None)
        except _Abort:
            pass
        except BaseException as e:  # noqa: BLE001
            self.exc = e
        finally:
            self.done = True
            sched.back.release()

    def runnable(self) -> bool:
        if self.done:
            return False
        b = self.blocked_on
        return b is None or b.can_take(self)


class Scheduler:
    def __init__(self, rng, *, line_rng=None, p_line=0.0, nutree_dir=None,
                 max_decisions=20000, stall_prob=0.0):
        self.rng = rng
        # separate stream for line pre-emption: forced (replayed / shrunk) schedules
        # do not draw from `rng`, the line stream stays aligned anyway
        self.line_rng = line_rng or rng
        self.p_line = p_line
        self.trace_always = False
        self.nutree_dir = (nutree_dir or "").rstrip(os.sep) + os.sep
        self.max_decisions = max_decisions
        self.threads: list[SimThread] = []
        self.current: SimThread | None = None
        self.back = threading.Semaphore(0)
        self.seq = 0  # global event sequence number (one per scheduler decision)
        self.decisions = 0
        self.switches = 0
        self.aborted = False
        self.events = []  # (seq, thread, kind, info)
        self.word = []  # context switch word (thread names as scheduled)
        self.stall_prob = stall_prob
        self.stalled = None  # (thread, remaining)
        self.max_waiters = 0
        self.line_yields = 0
        self.in_trace = False
        self.phase2_at = None
        self.forced = None  # recorded choice list for replay / schedule shrinking
        self.choices = []

    # -- API for simulated threads ------------------------------------------------
    def spawn(self, name, fn) -> SimThread:
        t = SimThread(self, name, fn)
        self.threads.append(t)
        t.thread.start()
        return t

    def log(self, kind, info=None):
        self.seq += 1
        self.events.append((self.seq, self.current.name if self.current else "-", kind, info))
        return self.seq

    def yield_point(self, reason=""):
        """Give the baton back; returns when this thread is scheduled again."""
        t = self.current
        if t is None or threading.current_thread() is not t.thread:
            return  # called from the scheduler thread itself (setup code)
        self.back.release()
        t.go.acquire()
        if self.aborted:
            raise _Abort()

    def pause(self):
        self.yield_point("pause")

    # -- tracing ------------------------------------------------------------------
    def _tracer(self, frame, event, arg):
        if event != "call":
            return None
        fn = frame.f_code.co_filename
        if not fn.startswith(self.nutree_dir):
            return None
        return self._line_tracer

    def _line_tracer(self, frame, event, arg):
        if event == "line" and self.p_line > 0 and not self.in_trace:
            if self.line_rng.random() < self.p_line:
                self.in_trace = True
                try:
                    self.line_yields += 1
                    self.yield_point("line")
                finally:
                    self.in_trace = False
        return self._line_tracer

    # -- scheduler loop -----------------------------------------------------------
    def run(self):
        try:
            while True:
                alive = [t for t in self.threads if not t.done]
                if not alive:
                    return
                runnable = [t for t in alive if t.runnable()]
                waiters = sum(1 for t in alive if t.blocked_on is not None)
                self.max_waiters = max(self.max_waiters, waiters)
                if not runnable:
                    raise Deadlock(
                        "no runnable thread: " + ", ".join(
                            f"{t.name} waits for {t.blocked_on.name} held by "
                            f"{t.blocked_on.owner.name if t.blocked_on.owner else None}"
                            for t in alive))
                self.decisions += 1
                if self.decisions > self.max_decisions:
                    raise StepCap(f"more than {self.max_decisions} scheduler decisions")
                # F-stall: a thread may be left un-scheduled for a while
                cands = runnable
                if self.stalled is not None:
                    st, left = self.stalled
                    if left <= 0 or st.done:
                        self.stalled = None
                    else:
                        others = [t for t in runnable if t is not st]
                        if others:
                            cands = others
                            self.stalled = (st, left - 1)
                        else:
                            self.stalled = None
                elif self.stall_prob and len(runnable) > 1 and self.rng.random() < self.stall_prob:
                    st = runnable[self.rng.randrange(len(runnable))]
                    self.stalled = (st, self.rng.randrange(5, 200))
                    cands = [t for t in runnable if t is not st]
                if self.forced is not None and self.forced:
                    want = self.forced.pop(0)
                    pick = next((t for t in cands if t.name == want), None)
                    if pick is None:
                        pick = cands[0]
                else:
                    pick = cands[self.rng.randrange(len(cands))]
                self.choices.append(pick.name)
                if pick is not self.current:
                    self.switches += 1
                    self.word.append(pick.name)
                self.current = pick
                self.seq += 1
                pick.go.release()
                self.back.acquire()
        finally:
            self.current = None

    def abort(self):
        """Unwind every parked thread (after Deadlock / StepCap / violation)."""
        self.aborted = True
        for t in self.threads:
            if not t.done:
                t.go.release()
        for t in self.threads:
            t.thread.join(timeout=5)


class SimRLock:
    """Drop-in for `threading.RLock()` owned by the scheduler."""

    reentrant = True

    def __init__(self, sched: Scheduler, name="lock"):
        self.sched = sched
        self.name = name
        self.owner: SimThread | None = None
        self.count = 0
        self.acquisitions = 0
        self.contended = 0
        self.on_release = None  # callback(thread) when the count drops to 0
        self.on_acquire = None  # callback(thread) when the count rises to 1

    def can_take(self, t: SimThread) -> bool:
        return self.owner is None or (self.reentrant and self.owner is t)

    def acquire(self, blocking=True, timeout=-1):
        s = self.sched
        me = s.current
        if me is None or threading.current_thread() is not me.thread:
            # scheduler thread itself (setup / teardown code): no contention possible
            if self.owner is None or self.owner == "main":
                self.owner = "main"
                self.count += 1
                return True
            raise RuntimeError("lock held by a simulated thread during setup")
        s.log("lock-request", self.name)
        s.yield_point("acquire")
        while not self.can_take(me):
            if not self.reentrant and self.owner is me:
                # a non re-entrant lock re-acquired by its owner can never proceed
                me.blocked_on = self
                s.log("self-deadlock", self.name)
                s.yield_point("blocked")
                continue
            if not blocking:
                return False
            self.contended += 1
            me.blocked_on = self
            s.log("lock-blocked", self.name)
            s.yield_point("blocked")
        me.blocked_on = None
        self.owner = me
        self.count += 1
        self.acquisitions += 1
        s.log("lock-acquired", (self.name, self.count))
        if self.count == 1 and self.on_acquire:
            self.on_acquire(me)
        return True

    def release(self):
        s = self.sched
        me = s.current
        if me is None or threading.current_thread() is not me.thread:
            if self.owner == "main":
                self.count -= 1
                if self.count == 0:
                    self.owner = None
                return
            raise RuntimeError("cannot release un-acquired lock")
        if self.owner is not me:
            raise RuntimeError("cannot release un-acquired lock")
        self.count -= 1
        if self.count == 0:
            if self.on_release:
                self.on_release(me)
            self.owner = None
            s.log("lock-released", self.name)
        s.yield_point("release")

    __enter__ = acquire

    def __exit__(self, *a):
        self.release()

    def locked(self):
        return self.owner is not None

    def _is_owned(self):
        return self.owner is self.sched.current


class SimLock(SimRLock):
    """Drop-in for `threading.Lock()` (not re-entrant)."""

    reentrant = False


def swap_locks(obj, sched: Scheduler):
    """Replace every threading.RLock/Lock attribute of `obj` (found by type, not
    by name) by the corresponding simulated lock.  -> list of sim locks"""
    rlock_t = type(threading.RLock())
    lock_t = type(threading.Lock())
    out = []
    d = getattr(obj, "__dict__", {})
    for name, val in list(d.items()):
        if isinstance(val, rlock_t):
            sl = SimRLock(sched, name)
        elif isinstance(val, lock_t):
            sl = SimLock(sched, name)
        else:
            continue
        setattr(obj, name, sl)
        out.append(sl)
    return out
