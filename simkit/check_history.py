"""Check driver for properties decided by HistorySim."""
from __future__ import annotations

import json
import os
import sys
import time

from . import checkmain as CM
from .batch import run_blocks

COMPONENTS = {
    "real": ["nutree/* from /repo working tree", "json", "zipfile",
             "OS file system for path targets (scratch dir)"],
    "stub": ["user callbacks (id hook, predicate, mapper, sort key, visitor) are "
             "simulator-owned wrappers with fault plans",
             "stream targets are in-memory SimStreams"],
}

EXCLUDED_ARG_CLASSES = [
    "integer before= outside 0 <= i < len(children)",
    "negative indexes",
    "same-parent move_to with an integer index",
    "restart (save/load, dict form) of a state holding two distinct identity-hashed objects "
    "with equal stored value",
    "key maps whose short keys collide with the field names a mapper writes "
    "(FileSystemEntry n/s/m/d with the standard maps)",
    "load() without a mapper when an entry is a dict (typed: other than {str, kind})",
    "dict form (to_dict_list/from_dict) of typed trees",
    "RANDOM_ORDER/UNORDERED iteration of a branch, visit() with methods other than "
    "pre/post/level, skip signals in post-order, visit callbacks returning True",
    "unhashable data without explicit data_id",

    "typed node/tree as source for an untyped tree",
    "source tree whose class is not (a subclass of) the target tree's class",
    "keep_children=True together with with_clones=True when members are nested or "
    "two members with children share a parent",
    "update_meta({})",
]


def replay_file(prop, path, quiet=False) -> int:
    from .history import replay
    from .world import import_nutree

    with open(path) as f:
        record = json.load(f)
    nt = import_nutree()
    if record.get("engine") in ("fs", "prng", "deep"):
        mod = __import__({"fs": "simkit.fsim", "prng": "simkit.prng",
                          "deep": "simkit.deep"}[record["engine"]],
                         fromlist=["replay_record"])
        hits = [h for h in mod.replay_record(record, prop, nt) if h[0] == prop]
        want = tuple(record["signature"]) if record.get("signature") else None
        if want:
            hits = [h for h in hits if (h[0], h[1], h[2]) == want] or hits
        if hits:
            h = hits[0]
            print(f"REPRODUCED {h[0]}/{h[1]}/{h[2]}: {h[3][:500]}")
            print(f"VIOLATION property={prop} replay={path}")
            return 1
        print(f"not reproduced: {path}")
        return 0
    if record.get("engine") == "peer":
        from .peer import run_case

        hits = [v for v in run_case(record, nt) if v.prop == prop]
        if hits:
            v = hits[0]
            print(f"REPRODUCED {v.prop}/{v.check}/{v.trigger}: {v.detail[:500]}")
            print(f"VIOLATION property={prop} replay={path}")
            return 1
        print(f"not reproduced: {path}")
        return 0
    log, _w = replay(record, nt=nt)
    want = tuple(record["signature"]) if record.get("signature") else None
    hits = [(i, v) for i, v in log.violations if v.prop == prop]
    if want:
        hits = [(i, v) for i, v in hits if (v.prop, v.check, v.trigger) == want] or hits
    if not quiet:
        for st in log.steps:
            print("  step", st)
    if hits:
        i, v = hits[0]
        print(f"REPRODUCED step={i} {v.prop}/{v.check}/{v.trigger}: {v.detail[:500]}")
        print(f"VIOLATION property={prop} replay={path}")
        return 1
    print(f"not reproduced: {path}")
    return 0


def run(prop: str, spec: dict, argv) -> int:
    args = CM.parse_args(argv)
    if args.replay:
        return replay_file(prop, args.replay, args.quiet)
    t0 = time.time()
    tier = args.tier
    seed = CM.base_seed()
    n_runs = args.runs or spec["runs"][tier]
    known, _own_avoid, findings = CM.finding_patterns(prop)
    # a violation of any property ends a run, so the triggers of every open
    # finding are avoided (in ~80 % of the runs), not only this property's
    all_known, avoid = CM.all_open_patterns()

    # 1. open known findings: replay each, report if still failing
    known_lines = []
    for f in findings:
        path = os.path.join(CM.VERIF, f["replay"])
        rc_ok, _out = CM.replay_in_fresh_interpreter(prop, path)
        if rc_ok:
            known_lines.append(f"KNOWN-FINDING: property={prop} {f['what']}")
        else:
            known_lines.append(
                f"NOTE: listed finding no longer reproduces: {f['signature']} ({f['replay']})")
    for line in known_lines:
        print(line)

    # 2. seeded exploration
    kwargs = dict(prop=prop, tier=tier, base_seed=seed, avoid_patterns=avoid,
                  known_patterns=all_known, engine=spec.get("engine", "history"),
                  cfg_overrides=spec.get("cfg_overrides"))
    agg = run_blocks(spec.get("block_mod", "simkit.runner"),
                     spec.get("block_fn", "history_block"), kwargs, n_runs,
                     workers=args.workers)
    wall_batch = time.time() - t0
    extra_info = {}
    for xb in spec.get("extra_blocks", []):
        t1 = time.time()
        n_x = xb["runs"][tier] if not args.runs else max(1, args.runs * xb["runs"]["quick"]
                                                         // spec["runs"]["quick"])
        kw2 = dict(kwargs)
        kw2["engine"] = xb["engine"]
        kw2.update(xb.get("kwargs", {}))
        a2 = run_blocks(xb["mod"], xb["fn"], kw2, n_x, workers=args.workers,
                        block=xb.get("block"))
        extra_info[xb["engine"]] = {"evaluations": a2.runs, "wall_s": round(time.time() - t1, 2)}
        extra_info[xb["engine"]].update({k: v for k, v in a2.extra.items()})
        a2.violations = [tuple(v) + ((None,) if len(v) == 7 else ()) for v in a2.violations]
        a2.violations = [v[:7] + ((xb["engine"], v[0], v[7]),) for v in a2.violations]
        runs_before = agg.runs
        agg.merge(a2)
        agg.runs = runs_before  # extra blocks report their own evaluation counts
        extra_info[xb["engine"]]["samples"] = a2.samples[:2]

    if agg.harness_errors:
        for e in agg.harness_errors[:5]:
            print("HARNESS-ERROR:", e[:1500])
        print(f"HARNESS-ERROR: {len(agg.harness_errors)} harness errors - no verdict")
        return 2

    rc = 0
    replay_path = None
    minim_info = {}
    if agg.violations:
        rc = 1
        agg.violations.sort(key=lambda v: (len(v) > 7, v[0], v[2]))
        first = agg.violations[0]
        index, rseed, step, p, c, t, detail = first[:7]
        recipe = first[7] if len(first) > 7 else None
        sig = (p, c, t)
        from .runner import history_run
        from .shrink import minimise
        from .world import import_nutree
        import re

        nt = import_nutree()
        avoid_rx = [re.compile(x) for x in avoid]
        if recipe is not None and not isinstance(recipe, dict) and recipe[0] == "enum":
            from .enum13 import base_history, with_fault

            record, _c, _s, _v = base_history(seed, recipe[1], tier, avoid_rx, nt)
            if recipe[2]:
                record = with_fault(record, *recipe[2])
        elif recipe is not None:
            mod = __import__(spec["rebuild_mod"], fromlist=["rebuild_record"])
            record = mod.rebuild_record(seed, prop, tier, recipe, nt)
        else:
            r = history_run(seed, prop, index, tier, nt=nt, avoid=avoid_rx,
                            engine=spec.get("engine", "history"),
                            cfg_overrides=spec.get("cfg_overrides"))
            record = r.record
        no_min = args.no_minimise or record.get("engine") in ("peer", "fs", "prng", "deep")
        rec_min = record if no_min else minimise(record, sig, nt=nt)
        replay_path = CM.write_replay(prop, rec_min, sig, detail)
        ok, out = CM.replay_in_fresh_interpreter(prop, replay_path)
        minim_info = {"ops_before": len(record.get("ops", ())),
                      "ops_after": len(rec_min.get("ops", ())),
                      "reproduced_in_fresh_interpreter": ok}
        if not ok:
            # minimiser mismatch would be a harness defect: report the full record
            replay_path = CM.write_replay(prop, record, sig, detail)
            minim_info["minimiser_mismatch"] = True
        print(f"violation: run={index} seed={rseed} step={step} {p}/{c}/{t}: {detail[:400]}")
        distinct = sorted({(v[3], v[4], v[5]) for v in agg.violations})
        for d in distinct[:20]:
            print("  signature:", "/".join(d))
        print(f"VIOLATION property={prop} replay={replay_path}")

    wall = time.time() - t0
    rate = agg.runs / max(wall_batch, 1e-6) * 3600
    cov = {
        "evaluations": agg.runs,
        "distinct_nontrivial": len(agg.run_digests_nontrivial),
        "rule": spec["rule"],
        "samples": agg.samples[:3],
        "steps_total": agg.steps,
        "logical_time_steps": agg.steps,
        "logical_time_note": "nutree has no clock; simulated time is the number of "
                             "operation steps executed",
        "runs_per_hour": int(rate),
        "seeds": {"base": seed, "first_index": 0, "last_index": n_runs - 1,
                  "derivation": "sha256(VERIF_SEED/engine/property/index)[:8]"},
        "successful_mutations": agg.ok_mut,
        "fault_fired": agg.fault_fired,
        "refusals_by_class": agg.refusals,
        "ops_by_kind_outcome": agg.outcomes,
        "distinct_states": len(agg.state_sample) * (1 if tier == "quick" else 16),
        "distinct_states_note": "sha of the canonical model state after each step"
                                + ("" if tier == "quick" else
                                   " (estimated from a 1/16 hash sample)"),
        "distinct_transitions": len(agg.transitions),
        "probes": {k: agg.probes.get(k, 0) for k in spec.get("probes", [])},
        "all_probes": agg.probes,
        "excluded_arg_classes": EXCLUDED_ARG_CLASSES,
        "components": COMPONENTS,
        "aborted_by_other_property": agg.other_prop,
        "known_findings_hit": agg.known_hits,
        "known_findings_reported": known_lines,
        "runs_avoiding_open_finding_triggers": agg.avoided_runs,
        "ops_dropped_by_avoidance": agg.avoided_ops,
        "exhaustive": False,
    }
    cov.update(agg.extra_json() if hasattr(agg, "extra_json") else {})
    if minim_info:
        cov["minimisation"] = minim_info
    for k, v in extra_info.items():
        cov[k] = v
    if spec.get("exhaustive_note"):
        cov["exhaustive_note"] = spec["exhaustive_note"]
    CM.write_evidence(prop, tier, seed, spec["level"], cov, wall,
                      len(agg.violations), spec["assumptions"])
    if not args.quiet:
        print(f"{prop} {tier}: runs={agg.runs} steps={agg.steps} "
              f"nontrivial={len(agg.run_digests_nontrivial)} states~{cov['distinct_states']} "
              f"transitions={len(agg.transitions)} other_prop={agg.other_prop} "
              f"known={agg.known_hits} wall={wall:.1f}s")
    return rc
