"""Delta-debugging minimiser for HistorySim records.

Operation ids are stable and node uids are derived from them (`n<opid>.<k>`),
so removing operations never renames later references; an operation whose
references no longer exist is skipped by the replay.
"""
from __future__ import annotations

import copy

from .history import replay


def _sig_set(log):
    return {(v.prop, v.check, v.trigger) for _, v in log.violations}


def fails_same(record, sig, nt=None) -> bool:
    try:
        log, _ = replay(record, nt=nt)
    except Exception:  # noqa: BLE001 - a candidate that breaks the harness is rejected
        return False
    return sig in _sig_set(log)


def minimise(record: dict, sig, nt=None, max_tests=3000) -> dict:
    """sig = (prop, check, trigger).  Returns a (locally) minimal record."""
    tests = [0]

    def test(rec):
        tests[0] += 1
        if tests[0] > max_tests:
            return False
        return fails_same(rec, sig, nt)

    rec = copy.deepcopy(record)
    if not test(rec):
        return record

    # 1. cut everything after the failing step
    log, _ = replay(rec, nt=nt)
    last = max(i for i, v in log.violations if (v.prop, v.check, v.trigger) == sig)
    rec["ops"] = rec["ops"][: last + 1]

    # 2. ddmin on the op list
    ops = rec["ops"]
    n = 2
    while len(ops) >= 2:
        chunk = max(1, len(ops) // n)
        removed_any = False
        i = 0
        while i < len(ops):
            cand = ops[:i] + ops[i + chunk:]
            if cand and test({**rec, "ops": cand}):
                ops = cand
                removed_any = True
            else:
                i += chunk
        if removed_any:
            n = max(n - 1, 2)
        else:
            if chunk == 1:
                break
            n = min(n * 2, len(ops))
    rec["ops"] = ops

    # 3. simplify arguments
    changed = True
    while changed and tests[0] <= max_tests:
        changed = False
        for idx, op in enumerate(list(rec["ops"])):
            for cand_op in _simpler(op):
                cand_ops = list(rec["ops"])
                cand_ops[idx] = cand_op
                if test({**rec, "ops": cand_ops}):
                    rec["ops"] = cand_ops
                    changed = True
                    break

    # 4. simplify configuration (fewer slots)
    cfg = rec["cfg"]
    while len(cfg["slots"]) > 1:
        cand_cfg = dict(cfg)
        cand_cfg["slots"] = cfg["slots"][:-1]
        if test({**rec, "cfg": cand_cfg}):
            cfg = cand_cfg
            rec["cfg"] = cfg
        else:
            break
    if cfg["slots"][0] != "plain":
        cand_cfg = dict(cfg)
        cand_cfg["slots"] = ["plain"] + cfg["slots"][1:]
        if test({**rec, "cfg": cand_cfg}):
            rec["cfg"] = cand_cfg
    rec["minimised"] = True
    rec["minimiser_tests"] = tests[0]
    return rec


def _simpler(op: dict):
    """Yield simpler variants of one op."""
    for key in ("fault", "data_id", "node_id", "deep", "reverse", "kind", "with_clones",
                "keep_children", "before"):
        if key in op:
            c = dict(op)
            del c[key]
            yield c
    if op.get("k") == "add" and op.get("api", "add") != "add" and "before" not in op:
        c = dict(op)
        if op["api"] in ("append_child", "prepend_child"):
            c["api"] = "add"
            yield c
    if isinstance(op.get("src"), dict) and "data_of" in op["src"]:
        pass
    if op.get("k") in ("filter", "copy") and op.get("verdicts"):
        for uid in list(op["verdicts"]):
            c = copy.deepcopy(op)
            del c["verdicts"][uid]
            yield c
        for uid, v in op["verdicts"].items():
            if isinstance(v, list) and v[1] != "ret":
                c = copy.deepcopy(op)
                c["verdicts"][uid] = [v[0], "ret"]
                yield c
    if op.get("k") == "fromdict":
        # drop one item (with its subtree), hoist an item's children, drop an id
        def variants(items):
            for i, (src, did, kids) in enumerate(items):
                yield items[:i] + items[i + 1:]
                if kids:
                    yield items[:i] + [[src, did, []]] + items[i + 1:]
                    yield items[:i] + kids + items[i + 1:]
                if did is not None:
                    yield items[:i] + [[src, None, kids]] + items[i + 1:]
                for sub in variants(kids):
                    yield items[:i] + [[src, did, sub]] + items[i + 1:]

        for v in variants(op["items"]):
            if v:
                c = copy.deepcopy(op)
                c["items"] = copy.deepcopy(v)
                yield c
        for key in ("mapper", "empty_children_key"):
            if key in op:
                c = dict(op)
                del c[key]
                yield c
    if op.get("k") == "sort" and "key" in op:
        c = dict(op)
        del c["key"]
        yield c
    if op.get("k") == "visit" and op.get("signals"):
        for uid in list(op["signals"]):
            c = copy.deepcopy(op)
            del c["signals"][uid]
            yield c
