"""C13 part 2: enumerate every k-th-invocation fault of every user callback of
sampled base histories (deterministic replay makes this an enumeration)."""
from __future__ import annotations

import copy

from . import rng as R
from .gen import READ_FAULT_CBS, FAULT_CBS, draw_cfg, gen_op
from .history import default_probes, new_world, replay, run_step
from .ops import make_plan
from .ops_store import cleanup_world

IO_WRITES_CAP = 6  # positions of the failing write() that are enumerated per stream op


def base_history(base_seed: int, index: int, tier: str, avoid, nt):
    """Fault-free run that records, per step, how often each callback ran."""
    seed = R.run_seed(base_seed, "enum", "C13", index)
    cfg = draw_cfg(R.stream(seed, "cfg"), "C13", tier, {"p_fault": 0.0})
    cfg["length"] = min(cfg["length"], 25)
    # small trees only: the number of replays is (steps x callbacks x invocations)
    cfg["bulk"] = None
    cfg["shape"] = None
    cfg["max_nodes"] = min(cfg["max_nodes"], 40)
    ops_rng = R.stream(seed, "ops")
    frng = R.stream(seed, "faults")
    avoiding = bool(avoid) and R.stream(seed, "avoid").random() < 0.8
    w = new_world(cfg, nt)
    probes = default_probes(cfg)
    ops, counts, steps = [], {}, []
    violations = []
    try:
        _base_body(w, cfg, ops_rng, frng, avoiding, avoid, probes, ops, counts, steps, violations)
    finally:
        cleanup_world(w)
    record = {"seed": seed, "prop": "C13", "index": index, "base_seed": base_seed,
              "engine": "enum", "cfg": cfg, "ops": ops}
    return record, counts, steps, violations


def _base_body(w, cfg, ops_rng, frng, avoiding, avoid, probes, ops, counts, steps, violations):
    for opid in range(cfg["length"]):
        op = gen_op(ops_rng, frng, cfg, w, opid)
        op.pop("fault", None)
        if avoiding:
            pl = make_plan(w, op)
            if pl.contract == "OK" and any(rx.search(pl.trigger) for rx in avoid):
                continue
        ops.append(op)
        r = run_step(w, op, probes=probes)
        steps.append((op["id"], op["k"], r.outcome, r.trigger))
        c = dict(r.counts)
        if op["k"] == "read" and op["what"] in ("save_stream", "to_dotfile") and r.outcome == "ok":
            c["io"] = min(IO_WRITES_CAP, r.result if isinstance(r.result, int) else 1)
        if c:
            counts[op["id"]] = c
        if r.violations:
            violations.extend((len(ops) - 1, v) for v in r.violations)
            break


def fault_points(record, counts):
    """All (opid, callback kind, k) of the base history."""
    pts = []
    for op in record["ops"]:
        c = counts.get(op["id"], {})
        allowed = READ_FAULT_CBS.get(op.get("what"), []) if op["k"] == "read" \
            else FAULT_CBS.get(op["k"], [])
        for cb in sorted(c):
            if cb not in allowed and cb != "io":
                # a callback that ran although the generator does not list it for
                # this op kind is still a legitimate fault site
                pass
            for k in range(1, c[cb] + 1):
                pts.append((op["id"], cb, k))
    return pts


def with_fault(record, opid, cb, k):
    rec = copy.copy(record)
    rec["ops"] = []
    for op in record["ops"]:
        if op["id"] == opid:
            op = dict(op)
            op["fault"] = {"cb": cb, "at": k}
        rec["ops"].append(op)
    rec["enum_fault"] = [opid, cb, k]
    return rec


def enum_block(start, stop, *, prop, tier, base_seed, avoid_patterns=(), known_patterns=(),
               engine="enum", cfg_overrides=None):
    import re

    from .batch import Agg
    from .world import HarnessError, import_nutree

    nt = import_nutree()
    avoid = [re.compile(p) for p in avoid_patterns]
    known = [re.compile(p) for p in known_patterns]
    agg = Agg()
    agg.extra = {"enum_base_histories": 0, "enum_fault_points": 0, "enum_replays": 0,
                 "enum_fault_fired": 0, "enum_fault_escaped": 0, "enum_fault_absorbed": 0,
                 "enum_points_by_cb": {}}
    for index in range(start, stop):
        try:
            record, counts, steps, viols = base_history(base_seed, index, tier, avoid, nt)
        except HarnessError as e:
            agg.harness_errors.append(f"enum base {index}: {e}")
            continue
        agg.runs += 1
        agg.steps += len(steps)
        agg.extra["enum_base_histories"] += 1
        if viols:
            # the fault-free base run itself violates something: report / count it
            for step, v in viols:
                sig = f"{v.prop}/{v.check}/{v.trigger}"
                if any(rx.search(sig) for rx in known):
                    agg.known_hits[sig] = agg.known_hits.get(sig, 0) + 1
                elif v.prop != prop:
                    agg.other_prop[v.prop] = agg.other_prop.get(v.prop, 0) + 1
                else:
                    agg.violations.append((index, record["seed"], step, v.prop, v.check,
                                           v.trigger, v.detail[:600], None))
            continue
        pts = fault_points(record, counts)
        agg.extra["enum_fault_points"] += len(pts)
        for (opid, cb, k) in pts:
            d = agg.extra["enum_points_by_cb"]
            d[cb] = d.get(cb, 0) + 1
            rec = with_fault(record, opid, cb, k)
            try:
                log, _w = replay(rec, nt=nt)
            except HarnessError as e:
                agg.harness_errors.append(f"enum replay {index}/{opid}/{cb}/{k}: {e}")
                continue
            agg.extra["enum_replays"] += 1
            fired = [s for s in log.steps if s[2] == "fault"]
            if fired:
                agg.extra["enum_fault_fired"] += 1
                agg.fault_fired["F-cb-raise/" + cb] = agg.fault_fired.get("F-cb-raise/" + cb, 0) + 1
            agg.run_digests_nontrivial.add(R.digest((index, opid, cb, k, tuple(log.steps))))
            for step, v in log.violations:
                sig = f"{v.prop}/{v.check}/{v.trigger}"
                if any(rx.search(sig) for rx in known):
                    agg.known_hits[sig] = agg.known_hits.get(sig, 0) + 1
                elif v.prop != prop:
                    agg.other_prop[v.prop] = agg.other_prop.get(v.prop, 0) + 1
                else:
                    agg.violations.append((index, record["seed"], step, v.prop, v.check,
                                           v.trigger, v.detail[:600], [opid, cb, k]))
        if len(agg.samples) < 2 and pts:
            agg.samples.append({"index": index, "seed": record["seed"],
                                "base_ops": record["ops"][:25],
                                "fault_points": [list(p) for p in pts[:40]]})
    return agg
