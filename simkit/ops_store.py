"""Restart operations: the persistence boundary inside a history.

restart/file : save() -> drop every reference to the old tree -> load()
restart/dict : to_dict_list() [-> json dumps/loads] -> Tree.from_dict()

Only the bytes (or the plain dict structure) survive; the history continues on
the loaded tree.  C05 / C12 (writing side) / C14 oracles live here.
"""
from __future__ import annotations

import json
import os
import shutil
import tempfile
import zipfile

from . import store as S
from .data import dhash, decode_value, encode_value, flavour_of, value_equal
from .model import MNode
from .ops import EXCLUDED, OK, SKIP, Plan, UidGen, handler, tree_of
from .world import Slot, Violation, World, real_children

COMPRESSION = {"STORED": zipfile.ZIP_STORED, "DEFLATED": zipfile.ZIP_DEFLATED,
               "BZIP2": zipfile.ZIP_BZIP2, "LZMA": zipfile.ZIP_LZMA}

CUSTOM_KEY_MAP = {"data_id": "i", "str": "s", "kind": "k", "type": "t", "name": "n",
                  "age": "a", "guid": "g"}
CUSTOM_VALUE_MAP = {"type": ["int", "tup", "person", "obj", "wrap", "udict", "float"]}

IDENTITY_HASHED = ("w", "o", "f")


def _interning_deser(w: World, cache: dict, consume=False, verify_user_keys=False):
    """Inverse of the serialising mapper; equal stored values give one object
    (so identity-hashed data keeps its clone groups).  `consume`: the mapper
    uses up the entry dict it was handed (pops everything), as a mapper doing
    `Cls(**data)` would."""

    def deser(parent, data):
        w.fault.tick("mapper")
        if "type" not in data:
            if "str" in data:
                return data["str"]
            if "data" in data and isinstance(data["data"], str) and "type" not in data:
                return data["data"]
            raise KeyError("no type")
        if verify_user_keys:
            for k, v in USER_KEYS.items():
                if data.get(k) != v:
                    raise KeyError(f"field {k!r} stored by the mapper came back as "
                                   f"{data.get(k)!r} (keys: {sorted(data)})")
        core = {k: v for k, v in data.items()
                if k in ("type", "v", "name", "age", "guid")}
        key = json.dumps(core, sort_keys=True)
        if key not in cache:
            cache[key] = decode_value(core, w.nt)
        return cache[key]

    def deser_any(parent, data):
        if "type" not in data and "n" in data and "str" not in data:
            w.fault.tick("mapper")
            core = {k: v for k, v in data.items() if k in ("n", "d", "s", "m")}
            key = json.dumps(core, sort_keys=True)
            if key not in cache:
                cache[key] = decode_value(core, w.nt)
            return cache[key]
        return deser(parent, data)

    def deser_consume(parent, data):
        try:
            return deser_any(parent, data)
        finally:
            data.clear()

    return deser_consume if consume else deser_any


USER_KEYS = {"s": "keep-s", "i": "keep-i", "k": "keep-k"}


def _ser(w: World, style="inplace_ret", user_keys=False):
    """Serialising mapper in the three documented styles: modify `data` in place
    and return None, modify in place and return it, or return a new dict.
    `user_keys`: the mapper also stores fields named like the standard short keys
    (only legal when no key map is in use)."""
    def ser(node, data):
        w.fault.tick("mapper")
        extra = dict(USER_KEYS) if user_keys and not isinstance(node.data, str) else {}
        if style == "new_data" and "data" in data and not isinstance(node.data, str):
            # dict form only: a new dict that also sets "data" itself (the entry's
            # "data" is then "as produced by the mapper")
            new = dict(encode_value(node.data))
            new["data"] = "M:" + str(node.data)
            return new
        if style in ("new_bare", "new_data"):
            # a new dict that holds the object's own fields only (what the shipped
            # DictWrapper.serialize_mapper does: `return node.data._dict.copy()`);
            # the fields nutree pre-filled (data_id, kind) are nutree's business
            if isinstance(node.data, str):
                return None
            new = dict(encode_value(node.data))
            new.update(extra)
            return new
        if style == "new":
            # a fresh dict built from the documented fields only
            new = {k: data[k] for k in ("data", "str", "data_id", "kind") if k in data}
            if not isinstance(node.data, str):
                new.update(encode_value(node.data))
            new.update(extra)
            return new
        if not isinstance(node.data, str):
            data.update(encode_value(node.data))
        data.update(extra)
        return None if style == "inplace_none" else data

    return ser


def _pool_key_for(obj):
    f = flavour_of(obj)
    if f == "s":
        return "s:" + obj
    if f == "i":
        return f"i:{obj}"
    if f == "x":
        return f"x:{int(obj)}"
    if f == "w":
        return f"w:{obj._dict['val']}"
    if f == "o":
        return "o:" + obj.guid[1:]
    if f == "f":
        if obj.is_dir:
            return "g:" + obj.name[1:]
        return "f:" + obj.name[1:-4]
    if f == "u":
        return f"u:{obj['u']}"
    return None


def _scratch_dir(w: World) -> str:
    d = getattr(w, "_scratch", None)
    if d is None or not os.path.isdir(d):
        d = tempfile.mkdtemp(prefix="nutree-verif-")
        w._scratch = d
    return d


def cleanup_world(w: World):
    d = getattr(w, "_scratch", None)
    if d and os.path.isdir(d):
        shutil.rmtree(d, ignore_errors=True)
    w._scratch = None


def _effective_maps(w: World, flavour: str, cls, key_map_opt, value_map_opt, kinds):
    """-> (save kwargs, expected header key_map, expected header value_map)"""
    kw = {}
    typed = flavour in ("typed", "tsub", "thook")
    if key_map_opt == "default":
        exp_k = dict(cls.DEFAULT_KEY_MAP)
    elif key_map_opt == "off":
        kw["key_map"] = False
        exp_k = {}
    else:
        kw["key_map"] = dict(CUSTOM_KEY_MAP)
        exp_k = dict(CUSTOM_KEY_MAP)
    if value_map_opt == "default":
        exp_v = {k: list(v) for k, v in cls.DEFAULT_VALUE_MAP.items()}
        if typed:
            exp_v.setdefault("kind", kinds)
    elif value_map_opt == "off":
        kw["value_map"] = False
        exp_v = {}
    else:
        vm = {k: list(v) for k, v in CUSTOM_VALUE_MAP.items()}
        if value_map_opt == "custom_dup":
            # a caller's list that mentions a value twice (collected without removing
            # duplicates): still a valid map, every written index must name the value
            vm["type"] = ["int", "tup", "int", "person", "obj", "tup", "wrap", "udict", "float"]
        kw["value_map"] = {k: list(v) for k, v in vm.items()}
        exp_v = {k: list(v) for k, v in vm.items()}
        if typed:
            exp_v.setdefault("kind", kinds)
    return kw, exp_k, exp_v


def check_written_document(w: World, text: str, mt, *, exp_key_map, exp_value_map,
                           user_meta, trigger, extra=None, encode=encode_value):
    """C12 writing side: the text must follow the documented layout and decode
    to the model state."""

    def fail(detail):
        raise Violation("C12", "written-layout", detail, trigger)

    try:
        meta, entries = S.decode_document(text)
    except S.FormatError as e:
        fail(f"document violates the documented layout: {e}")
    for k, v in (user_meta or {}).items():
        if meta.get(k) != v:
            fail(f"user meta {k!r} not stored in the header")
    if exp_key_map:
        if meta.get("$key_map") != exp_key_map:
            fail(f"$key_map is {meta.get('$key_map')!r}, maps in use {exp_key_map!r}")
    elif "$key_map" in meta:
        fail("$key_map present although no key map is in use")
    if exp_value_map:
        got = meta.get("$value_map")
        if not isinstance(got, dict) or set(got) != set(exp_value_map):
            fail(f"$value_map is {got!r}, maps in use {exp_value_map!r}")
        for k, vals in exp_value_map.items():
            if k == "kind":
                if set(got[k]) != set(vals) or len(got[k]) != len(set(got[k])):
                    fail(f"$value_map.kind is {got[k]!r}, kinds in tree {vals!r}")
            elif got[k] != vals:
                fail(f"$value_map.{k} is {got[k]!r}, expected {vals!r}")
    elif "$value_map" in meta:
        fail("$value_map present although no value map is in use")

    nodes = list(mt.root.iter_pre())
    if len(entries) - 1 != len(nodes):
        fail(f"{len(entries) - 1} entries for {len(nodes)} nodes")
    pos_of = {id(mt.root): 0}
    first_of_data = {}  # data_id -> [(pos, MNode)] first occurrences of distinct data
    typed = mt.typed
    for pos, m in enumerate(nodes, 1):
        pos_of[id(m)] = pos
        e = entries[pos]
        if e.parent != pos_of[id(m.parent)]:
            fail(f"entry {pos} names parent {e.parent}, node's parent is entry "
                 f"{pos_of[id(m.parent)]} (node list not in pre-order / wrong index base)")
        # first occurrence of "the same data": same data_id and same/equal object
        first = None
        for cand in first_of_data.get(m.did, ()):
            if cand[1].data is m.data or value_equal(cand[1].data, m.data):
                first = cand
                break
        custom = m.did != dhash(m.data)
        if first is None:
            first_of_data.setdefault(m.did, []).append((pos, m))
        # required only in the unambiguous case (DESIGN.md section 4 C12): default id,
        # same kind as the first occurrence, and the id group holds one data value only
        # (different data under one id - e.g. 3 under the explicit id 0 next to the data
        # 0 - may be written either way as long as it decodes to the tree)
        must_ref = (first is not None and first[1].did == m.did and not custom
                    and first[1].kind == m.kind and len(first_of_data.get(m.did, ())) == 1)
        # ... and (round 15) whenever the node repeats the data and kind of the very first
        # entry of its id group, however many other data values share that id: d1 d2 d1
        # under one id must give full, full, position of the first entry
        group = first_of_data.get(m.did, ())
        if (not must_ref and first is not None and group and first is group[0]
                and first[1].kind == m.kind and not custom):
            must_ref = True
        if e.kind_of_entry == "ref":
            t = nodes[e.ref - 1]
            if not (t.data is m.data or (value_equal(t.data, m.data) and t.did == m.did)):
                fail(f"entry {pos} refers to entry {e.ref} which carries other data")
            if t.did != m.did:
                fail(f"entry {pos} refers to entry {e.ref} which has another data_id")
            if t.kind != m.kind:
                fail(f"entry {pos} refers to entry {e.ref} of kind {t.kind!r}, "
                     f"node kind is {m.kind!r}")
            continue
        if must_ref:
            fail(f"entry {pos} repeats the data of entry {first[0]} (same kind) in full "
                 f"instead of storing its position")
        if e.kind_of_entry == "str":
            if typed:
                fail(f"entry {pos}: plain string entry in a typed tree loses the kind")
            if not isinstance(m.data, str) or e.data != m.data:
                fail(f"entry {pos}: string {e.data!r} does not describe the node data")
            if custom:
                fail(f"entry {pos}: plain string entry loses the custom data_id")
            continue
        exp = {}
        if isinstance(m.data, str):
            exp["str"] = m.data
        else:
            exp.update(encode(m.data))
            if extra:
                exp.update(extra)
        if custom:
            exp["data_id"] = m.did
        if typed:
            exp["kind"] = m.kind
        if e.data != exp:
            fail(f"entry {pos} decodes to {e.data!r}, node is {exp!r}")
    return meta


def _has_equal_valued_distinct_identity_objects(mt) -> bool:
    """Two distinct identity-hashed objects with the same stored value under
    default ids: no value based mapper can keep them apart (and a non interning
    one cannot keep clones of differing kind together), so what 'the same
    clone groups' means after a restart is not defined."""
    seen = {}
    for m in mt.root.iter_pre():
        if flavour_of(m.data) in IDENTITY_HASHED and m.did == dhash(m.data):
            key = repr(sorted(encode_value(m.data).items()))
            o = seen.setdefault(key, m.data)
            if o is not m.data:
                return True
    return False


def _has_identity_kind_conflict(mt) -> bool:
    groups = {}
    for m in mt.root.iter_pre():
        if flavour_of(m.data) in IDENTITY_HASHED and m.did == dhash(m.data):
            groups.setdefault(m.did, set()).add(m.kind)
    return any(len(k) > 1 for k in groups.values())


@handler("restart")
def plan_restart(w: World, op: dict) -> Plan:
    ref = f"T{op['slot']}"
    si, root = w.mnode(ref)
    rt = w.real(ref)
    if root is None or rt is None:
        return Plan(SKIP)
    mt = tree_of(w, si)
    via = op.get("via", "file")
    if via == "dict":
        return _plan_restart_dict(w, op, si, mt, rt)
    flavour = mt.flavour
    cls = w.tree_class(flavour)
    class_style = flavour in ("sub", "tsub", "fs")
    # loading without a mapper is documented for plain string entries only
    # (typed: {"str", "kind"}); dict entries need a mapper by documentation
    # - also when a string node carries a custom data_id ({"str", "data_id"[, "kind"]}):
    # what was saved without a mapper loads without one
    plain_entries = all(isinstance(m.data, str) for m in mt.root.iter_pre())
    no_mapper = bool(op.get("no_mapper")) and plain_entries and not class_style
    has_fs_data = any(flavour_of(m.data) == "f" for m in mt.root.iter_pre())
    target_kind = op.get("target", "path")
    comp = op.get("compression")
    if target_kind == "stream":
        comp = None
    kinds = []
    for m in mt.root.iter_pre():
        if m.kind not in kinds:
            kinds.append(m.kind)
    if (op.get("key_map") == "custom" and (flavour == "fs" or has_fs_data)) or (
            has_fs_data and flavour != "fs" and op.get("key_map", "default") != "off"):
        # the FileSystemEntry field names n/s/m/d collide with the short keys of
        # the standard key maps (which is why FileSystemTree clears its key map)
        return Plan(EXCLUDED, why="custom key map colliding with the FileSystemTree mapper keys")
    kw, exp_k, exp_v = _effective_maps(w, flavour, cls, op.get("key_map", "default"),
                                       op.get("value_map", "default"), kinds)
    user_meta = op.get("meta")
    if user_meta:
        kw["meta"] = dict(user_meta)
    user_keys = bool(op.get("user_keys")) and not mt.typed \
        and not class_style and not no_mapper and not has_fs_data
    # a field name that equals a short key of the key map in use
    user_keys_collide = user_keys and op.get("key_map", "default") != "off" \
        and any(not isinstance(m.data, str) for m in mt.root.iter_pre())
    # the mapper pair the library ships for DictWrapper data (ug_objects.rst): only
    # for trees in which every node holds a DictWrapper
    shipped = (op.get("mapper_style") == "shipped" and not class_style and not no_mapper
               and bool(mt.root.children)
               and all(flavour_of(m.data) == "w" for m in mt.root.iter_pre()))
    if op.get("mapper_style") == "shipped" and not shipped:
        return Plan(EXCLUDED, why="DictWrapper mappers need DictWrapper data in every node")
    if shipped:
        if _has_identity_kind_conflict(mt):
            return Plan(EXCLUDED, why="clones of differing kind with a non-interning mapper")
        user_keys = user_keys_collide = False
        kw["mapper"] = w.nt.DictWrapper.serialize_mapper
    elif not class_style and not no_mapper:
        kw["mapper"] = _ser(w, op.get("mapper_style", "inplace_ret"), user_keys=user_keys)
    if comp is not None:
        kw["compression"] = comp if isinstance(comp, bool) else COMPRESSION[comp]
    trigger = "restart/file/" + target_kind
    if comp:
        trigger += "/zip"
    if user_keys_collide:
        trigger += "/user-key-collides"
    if shipped:
        trigger += "/dictwrapper-mappers"
    # probes for rare shapes
    seen = {}
    for m in mt.root.iter_pre():
        f = seen.get(m.did)
        if f is None:
            seen[m.did] = m
        elif m.parent is not None and m.parent.parent is f.parent and m.parent is not f:
            trigger += "/clone-below-sibling"
            break
    if mt.typed:
        kset = {}
        for m in mt.root.iter_pre():
            kset.setdefault(m.did, set()).add(m.kind)
        if any(len(v) > 1 for v in kset.values()):
            trigger += "/clone-kinds-differ"

    state = {}

    def call():
        if target_kind == "path":
            path = os.path.join(_scratch_dir(w), f"t{op['id']}.nutree")
            state["path"] = path
            rt.save(path, **kw)
        else:
            fp = S.SimStream()
            state["fp"] = fp
            rt.save(fp, **kw)
        return None

    def after(_res):
        # 1. what was written (C12)
        if target_kind == "path":
            text = S.read_saved_text(state["path"])
            method = S.zip_method_of(state["path"])
            want = None
            if comp is True:
                want = "any"
            elif comp:
                want = COMPRESSION[comp]
            if want is None and method is not None:
                raise Violation("C05", "compression", "file is zipped although compression "
                                "is off", trigger)
            if want == "any" and method is None:
                raise Violation("C05", "compression", "file is not zipped although "
                                "compression=True", trigger)
            if want not in (None, "any") and method != want:
                raise Violation("C05", "compression",
                                f"zip method {method}, requested {want}", trigger)
        else:
            text = state["fp"].getvalue()
        pending = []
        try:
            check_written_document(w, text, mt, exp_key_map=exp_k, exp_value_map=exp_v,
                                   user_meta=user_meta, trigger=trigger,
                                   extra=USER_KEYS if user_keys else None,
                                   encode=(lambda o: dict(o._dict)) if shipped
                                   else encode_value)
        except Violation as v12:
            # keep going: what load() makes of the file is C05's own question
            pending.append(v12)
        # 2. crash: every live object is dropped, only the bytes survive
        old_groups = _partition(mt)
        w.unbind_slot(si)
        w.slots[si].real = None
        load_cls = cls
        w.deser_cache = {}  # class level mappers intern per load as well
        # a caller may hand the same dict to several load() calls: what an earlier
        # file left in it must not influence how this file is decoded
        if op.get("reuse_file_meta"):
            file_meta = w.__dict__.setdefault("shared_file_meta", {})
        else:
            file_meta = {}
        lkw = {"file_meta": file_meta}
        if op.get("auto_uncompress"):
            lkw["auto_uncompress"] = True  # the default, spelled out
        if shipped:
            lkw["mapper"] = w.nt.DictWrapper.deserialize_mapper
        elif not class_style and not no_mapper:
            lkw["mapper"] = _interning_deser(w, {}, consume=op.get("deser_style") == "consume",
                                             verify_user_keys=user_keys)
        try:
            if target_kind == "path":
                loaded = load_cls.load(state["path"], **lkw)
            else:
                fp2 = S.SimStream()
                fp2.write(text)
                fp2.seek(0)
                loaded = load_cls.load(fp2, **lkw)
        except Exception as e:  # noqa: BLE001
            v05 = Violation("C05", "load-raised",
                            f"load() of the file just saved raised {type(e).__name__}: {e}",
                            trigger)
            v05.also = pending
            raise v05 from None
        finally:
            if target_kind == "path":
                try:
                    os.unlink(state["path"])
                except OSError:
                    pass
        try:
            _adopt_loaded(w, si, loaded, mt, op, "C05", trigger, old_groups,
                          want_class=load_cls)
            for k, v in (user_meta or {}).items():
                if file_meta.get(k) != v:
                    raise Violation("C05", "file-meta", f"user meta {k!r} not handed back",
                                    trigger)
            if not str(file_meta.get("$generator", "")).startswith("nutree/"):
                raise Violation("C05", "file-meta", "stored header not handed back", trigger)
        except Violation as v05:
            v05.also = pending
            raise
        if pending:
            raise pending[0]

    if _has_equal_valued_distinct_identity_objects(mt):
        return Plan(EXCLUDED, why="distinct identity-hashed objects with equal stored value")
    return Plan(OK, call=call, apply=None, owner="C05", trigger=trigger, after=after,
                slots=(si,), readonly=True)


def _partition(mt):
    groups = {}
    for pos, m in enumerate(mt.root.iter_pre()):
        groups.setdefault(m.did, []).append(pos)
    return sorted(groups.values())


def _adopt_loaded(w: World, si: int, loaded, mt, op, owner, trigger, old_groups, *,
                  want_class=None, plain_result=False):
    """Lock-step walk of the loaded tree against the model projected through
    persistence; re-binds the model to the new objects."""
    nt = w.nt

    def fail(check, detail):
        raise Violation(owner, check, detail, trigger)

    if want_class is not None and not isinstance(loaded, want_class):
        fail("class", f"loaded tree is a {type(loaded).__name__}, not a {want_class.__name__}")
    if not isinstance(loaded, nt.Tree):
        fail("class", "result is not a tree")
    uidgen = UidGen(op["id"])
    new_dids = []
    pairs = []

    def walk(m: MNode, r_obj, path):
        rk = real_children(r_obj)
        if len(rk) != len(m.children):
            fail("shape", f"{len(rk)} children at {path or '/'}, expected {len(m.children)}")
        for mc, rc in zip(m.children, rk):
            if not value_equal(rc.data, mc.data):
                fail("data", f"data at {path}/{w.dkey(mc.data)} rebuilt as {rc.data!r}")
            if mt.typed and not plain_result:
                if getattr(rc, "kind", None) != mc.kind:
                    fail("kind", f"kind {getattr(rc, 'kind', None)!r} at {path}/"
                                 f"{w.dkey(mc.data)}, expected {mc.kind!r}")
            value_derived = (mc.did != dhash(mc.data)) or \
                flavour_of(mc.data) not in IDENTITY_HASHED
            if value_derived and rc.data_id != mc.did:
                fail("data_id", f"data_id at {path}/{w.dkey(mc.data)} changed "
                                f"(was {w.did_sym(mc)})")
            pairs.append((mc, rc))
            new_dids.append(rc.data_id)
            walk(mc, rc, f"{path}/{w.dkey(mc.data)}")

    walk(mt.root, loaded, "")
    groups = {}
    for pos, d in enumerate(new_dids):
        groups.setdefault(d, []).append(pos)
    if sorted(groups.values()) != old_groups:
        fail("clone-groups", f"clone groups changed: {old_groups} -> {sorted(groups.values())}")
    # re-bind: new uids, new data objects, ids as loaded
    if mt.flavour in ("hook", "fwd") or plain_result:
        mt.flavour = "plain"
    elif mt.flavour == "thook":
        mt.flavour = "typed"  # the loading class has no id callback; ids are stored
    for mc, rc in pairs:
        mc.uid = uidgen()
        mc.meta = None  # node metadata is not part of what C05/C14 promise
        mc.nid = None  # neither are node ids
        mc.data = rc.data
        mc.explicit = rc.data_id != dhash(rc.data)
        mc.did = rc.data_id
        if plain_result:
            mc.kind = None
        k = _pool_key_for(rc.data)
        if k is not None:
            w.pool.register(k, rc.data)
        else:
            w.pool.register(f"r:{mc.uid}", rc.data)
    w.slots[si] = Slot(loaded, mt)
    from .observe import compare_slot

    compare_slot(w, si, owner, trigger)


# ------------------------------------------------------------------------------
# dict form (C14)
# ------------------------------------------------------------------------------
def _plan_restart_dict(w: World, op, si, mt, rt) -> Plan:
    if mt.typed:
        return Plan(EXCLUDED, why="dict form of typed trees (from_dict returns a plain Tree)")
    all_str = all(isinstance(m.data, str) for m in mt.root.iter_pre())
    use_mapper = (not all_str) or bool(op.get("with_mapper"))
    via_json = bool(op.get("json"))
    trigger = "restart/dict" + ("/json" if via_json else "") + ("/mapper" if use_mapper else "")
    if not mt.root.children:
        trigger += "/empty"
    if _has_equal_valued_distinct_identity_objects(mt):
        return Plan(EXCLUDED, why="distinct identity-hashed objects with equal stored value")

    ser = _ser(w, op.get("mapper_style", "inplace_ret"))
    if use_mapper:
        trigger += "/" + op.get("mapper_style", "inplace_ret")
    # a mapper pair that keeps the explicit id under the application's own key: the
    # serialising side renames the pre-filled "data_id" entry to "xid", the inverse side
    # hands it back by setting item["data_id"] (from_dict() reads the id from the entry
    # *after* the mapper ran). Derived from fields the generator already draws.
    rename_id = (use_mapper and op.get("deser_style") == "consume"
                 and op.get("mapper_style", "inplace_ret") in ("inplace_ret", "inplace_none"))
    id_key = "xid" if rename_id else "data_id"
    if rename_id:
        trigger += "/rename-id"
        ser_base = ser

        def ser(node, data):  # noqa: F811
            r = ser_base(node, data)
            if "data_id" in data:
                data["xid"] = data.pop("data_id")
            return r

    def call():
        if use_mapper:
            return rt.to_dict_list(mapper=ser)
        return rt.to_dict_list()

    def after(res):
        def fail(check, detail):
            raise Violation("C14", check, detail, trigger)

        # 1. the structure mirrors the tree
        def mirror(items, mnodes, path):
            if not isinstance(items, list) or len(items) != len(mnodes):
                fail("dict-shape", f"{len(items) if isinstance(items, list) else items!r} "
                                   f"dicts at {path or '/'}, {len(mnodes)} nodes")
            for it, m in zip(items, mnodes):
                if not isinstance(it, dict):
                    fail("dict-shape", "entry is not a dict")
                exp_data = str(m.data)
                if use_mapper and op.get("mapper_style") == "new_data" \
                        and not isinstance(m.data, str):
                    exp_data = "M:" + str(m.data)  # as produced by the mapper
                if it.get("data") != exp_data:
                    fail("dict-data", f"data {it.get('data')!r} for node {w.dkey(m.data)}")
                custom = m.did != dhash(m.data)
                if custom:
                    if it.get(id_key) != m.did:
                        fail("dict-data_id", f"custom data_id of {w.dkey(m.data)} missing")
                    if rename_id and "data_id" in it:
                        fail("dict-data_id", "entry removed by the mapper is back")
                elif "data_id" in it or id_key in it:
                    fail("dict-data_id", f"default data_id of {w.dkey(m.data)} stored")
                if not isinstance(m.data, str):
                    enc = encode_value(m.data)
                    if any(it.get(k) != v for k, v in enc.items()):
                        fail("dict-data", f"mapper output missing for {w.dkey(m.data)}")
                kids = it.get("children")
                if m.children:
                    mirror(kids, m.children, f"{path}/{w.dkey(m.data)}")
                elif kids:
                    fail("dict-shape", "children listed for a leaf")

        mirror(res, mt.root.children, "")
        obj = res
        if via_json:
            try:
                obj = json.loads(json.dumps(res))
            except (TypeError, ValueError) as e:
                fail("json", f"structure is not JSON serialisable: {e}")
        old_groups = _partition(mt)
        w.unbind_slot(si)
        w.slots[si].real = None
        def flat(items):
            # iterative fingerprint of the nested structure (chains may be hundreds of
            # levels deep: no recursion, no deepcopy)
            out = []
            stack = [(0, items)]
            while stack:
                depth, lst = stack.pop()
                if not isinstance(lst, list):
                    out.append((depth, "not-a-list", repr(lst)))
                    continue
                out.append((depth, "list", len(lst)))
                for it in reversed(lst):
                    if isinstance(it, dict):
                        out.append((depth, "dict", tuple(sorted(
                            (k, repr(v)) for k, v in it.items() if k != "children")),
                            "children" in it))
                        if "children" in it:
                            stack.append((depth + 1, it["children"]))
                    else:
                        out.append((depth, "other", repr(it)))
            return out

        pristine = flat(obj)
        try:
            if rename_id:
                deser_base = _interning_deser(w, {})

                def deser(parent, data):
                    if "xid" in data:
                        data["data_id"] = data["xid"]
                    return deser_base(parent, data)

                loaded = w.nt.Tree.from_dict(obj, mapper=deser)
            elif use_mapper:
                loaded = w.nt.Tree.from_dict(obj, mapper=_interning_deser(w, {}))
            else:
                loaded = w.nt.Tree.from_dict(obj)
        except Exception as e:  # noqa: BLE001
            fail("from_dict-raised", f"from_dict() raised {type(e).__name__}: {e}")
        # the structure belongs to the caller (who may dump it or build from it again);
        # the simulator's mapper does not touch it, so any change is from_dict()'s
        if not rename_id and flat(obj) != pristine:  # (that mapper writes to its entry)
            fail("input-changed", "from_dict() modified the structure it was given "
                                  "(a second build from it would differ)")
        _adopt_loaded(w, si, loaded, mt, op, "C14", trigger, old_groups, plain_result=True)

    return Plan(OK, call=call, apply=None, owner="C14", trigger=trigger, after=after,
                slots=(si,), readonly=True)
