"""StoreSim: the persistence boundary and an independent reference codec.

The codec is written from docs/sphinx/ug_serialize.rst only.  It acts as the
in-process fake peer of nutree's file format: bytes written by nutree are
decoded here, documents encoded here must load in nutree.

Documented layout
    {"meta": {"$generator": "nutree/<ver>", "$format_version": "1.0",
              ["$key_map": {long: short}], ["$value_map": {long: [values]}],
              <user meta>...},
     "nodes": [[parent_pos, x], ...]}          pre-order, positions are 1-based,
                                                 0 = system root
    x = "text"   plain string data (untyped tree, default data_id)
      = <int>    position of the first occurrence of the same data (same kind)
      = {...}    mapped data; keys shortened per $key_map, values of the keys
                 listed in $value_map replaced by their index
"""
from __future__ import annotations

import errno
import io
import json
import zipfile

from .data import dhash, encode_value


class FormatError(Exception):
    pass


class SimStream(io.StringIO):
    """In-memory text stream target; can fail the k-th write (F-io-write)."""

    def __init__(self, fail_at=None):
        super().__init__()
        self.writes = 0
        self.fail_at = fail_at
        self.failed = False
        self.on_write = None  # simulator hook: a write that takes long (SchedSim)

    def write(self, s):
        self.writes += 1
        if self.on_write is not None:
            self.on_write()
        if self.fail_at is not None and self.writes == self.fail_at:
            self.failed = True
            raise OSError(errno.ENOSPC, "No space left on device (injected)")
        return super().write(s)


def read_saved_text(path) -> str:
    """Read what save(path) wrote, unzipping independently of nutree."""
    if zipfile.is_zipfile(path):
        with zipfile.ZipFile(path) as zf:
            names = zf.namelist()
            if len(names) != 1:
                raise FormatError(f"zip with {len(names)} members")
            return zf.read(names[0]).decode("utf8")
    with open(path, encoding="utf8") as f:
        return f.read()


def zip_method_of(path):
    if not zipfile.is_zipfile(path):
        return None
    with zipfile.ZipFile(path) as zf:
        return zf.infolist()[0].compress_type


# ------------------------------------------------------------------------------
# decoder
# ------------------------------------------------------------------------------
class DEntry:
    __slots__ = ("pos", "parent", "raw", "kind_of_entry", "data", "ref", "children")

    def __init__(self, pos, parent, raw):
        self.pos = pos
        self.parent = parent
        self.raw = raw
        self.kind_of_entry = None  # 'str' | 'ref' | 'dict'
        self.data = None  # expanded dict / str
        self.ref = None
        self.children = []


def decode_document(text: str):
    """-> (meta, entries[1..n] as list, root children positions).  Raises
    FormatError when the text does not follow the documented layout."""
    try:
        doc = json.loads(text)
    except ValueError as e:
        raise FormatError(f"not JSON: {e}") from None
    if not isinstance(doc, dict) or set(doc.keys()) != {"meta", "nodes"}:
        raise FormatError("top level must be {meta, nodes}")
    meta = doc["meta"]
    if not isinstance(meta, dict):
        raise FormatError("meta must be a dict")
    gen = meta.get("$generator")
    if not isinstance(gen, str) or not gen.startswith("nutree/"):
        raise FormatError("header must name the generator 'nutree/<version>'")
    if "$format_version" not in meta:
        raise FormatError("header must carry $format_version")
    key_map = meta.get("$key_map", {})
    value_map = meta.get("$value_map", {})
    if "$key_map" in meta and (not isinstance(key_map, dict) or not key_map):
        raise FormatError("$key_map present but empty/not a dict")
    if "$value_map" in meta and (not isinstance(value_map, dict) or not value_map):
        raise FormatError("$value_map present but empty/not a dict")
    inv = {}
    for long, short in key_map.items():
        if short in inv:
            raise FormatError("key map is not injective")
        inv[short] = long
    nodes = doc["nodes"]
    if not isinstance(nodes, list):
        raise FormatError("nodes must be a list")
    entries = [None]
    for idx, item in enumerate(nodes, 1):
        if not isinstance(item, list) or len(item) != 2:
            raise FormatError(f"entry {idx} is not a [parent, data] pair")
        p, x = item
        if isinstance(p, bool) or not isinstance(p, int) or not (0 <= p < idx):
            raise FormatError(f"entry {idx}: parent {p!r} is not an earlier position")
        e = DEntry(idx, p, x)
        if isinstance(x, str):
            e.kind_of_entry = "str"
            e.data = x
        elif isinstance(x, bool):
            raise FormatError(f"entry {idx}: bool data")
        elif isinstance(x, int):
            if not (1 <= x < idx):
                raise FormatError(f"entry {idx}: reference {x} is not an earlier position")
            e.kind_of_entry = "ref"
            first = entries[x]
            if first.kind_of_entry == "ref":
                raise FormatError(f"entry {idx}: reference to a reference")
            e.ref = x
            e.data = first.data
        elif isinstance(x, dict):
            e.kind_of_entry = "dict"
            exp = {}
            for k, v in x.items():
                if k in key_map and k not in inv:
                    raise FormatError(f"entry {idx}: long key {k!r} although the key map "
                                      f"declares {key_map[k]!r}")
                long = inv.get(k, k)
                if long in value_map:
                    if isinstance(v, bool) or not isinstance(v, int):
                        raise FormatError(f"entry {idx}: value of {long!r} not replaced by "
                                          f"its index although listed in $value_map")
                    try:
                        v = value_map[long][v]
                    except (IndexError, TypeError):
                        raise FormatError(f"entry {idx}: value index {v} out of range") from None
                exp[long] = v
            e.data = exp
        else:
            raise FormatError(f"entry {idx}: unsupported data {type(x).__name__}")
        entries.append(e)
        if p:
            entries[p].children.append(idx)
    # pre-order: every entry's parent must be on the path of the previous entry
    path = [0]
    for e in entries[1:]:
        while path and path[-1] != e.parent:
            path.pop()
        if not path:
            raise FormatError(f"entry {e.pos}: node list is not in pre-order")
        path.append(e.pos)
    return meta, entries


# ------------------------------------------------------------------------------
# encoder (model -> document)
# ------------------------------------------------------------------------------
def describe_data(obj) -> dict | str:
    """What a full entry carries for this data object (before shortening)."""
    if isinstance(obj, str):
        return obj
    return dict(encode_value(obj))


def encode_model(mtree, *, key_map=None, value_map=None, user_meta=None, typed=None,
                 version="0.0.0-ref", use_refs=True, default_kind="child"):
    """Independent encoder of the documented layout for a model tree."""
    typed = mtree.typed if typed is None else typed
    key_map = key_map or {}
    value_map = value_map or {}
    meta = {"$generator": f"nutree/{version}", "$format_version": "1.0"}
    if key_map:
        meta["$key_map"] = dict(key_map)
    if value_map:
        meta["$value_map"] = {k: list(v) for k, v in value_map.items()}
    if user_meta:
        meta.update(user_meta)
    nodes = []
    pos_of = {id(mtree.root): 0}
    first_seen = {}  # (did, id(data)) -> (pos, kind)
    for pos, m in enumerate(mtree.root.iter_pre(), 1):
        pos_of[id(m)] = pos
        ppos = pos_of[id(m.parent)]
        key = (m.did, id(m.data))
        seen = first_seen.get(key)
        if use_refs and seen is not None and seen[1] == m.kind:
            nodes.append([ppos, seen[0]])
            continue
        if seen is None:
            first_seen[key] = (pos, m.kind)
        custom = m.did != dhash(m.data)
        if isinstance(m.data, str) and not custom and not typed:
            nodes.append([ppos, m.data])
            continue
        d = {}
        if isinstance(m.data, str):
            d["str"] = m.data
        else:
            d.update(encode_value(m.data))
        if custom:
            d["data_id"] = m.did
        if typed:
            d["kind"] = m.kind if m.kind is not None else default_kind
        short = {}
        for k, v in d.items():
            if k in value_map:
                v = value_map[k].index(v)
            short[key_map.get(k, k)] = v
        nodes.append([ppos, short])
    return {"meta": meta, "nodes": nodes}


def SimStream_from(text: str) -> SimStream:
    fp = SimStream()
    fp.write(text)
    fp.seek(0)
    fp.writes = 0
    return fp
