"""Operation alphabet: contract (from the documentation), model effect, real call.

Each handler turns a JSON operation record into a `Plan`:

    contract  OK        documented-valid: real call must succeed, effect == model
              REFUSE    documented-invalid: real call must raise, state unchanged
              EXCLUDED  behaviour not documented: never executed
              SKIP      a reference of the record no longer exists (after shrinking)
"""
from __future__ import annotations

from .model import MNode, MTree, apply_filter_inplace, model_filter
from .world import InjectedFault, World

OK, REFUSE, EXCLUDED, SKIP, NOCHANGE = "OK", "REFUSE", "EXCLUDED", "SKIP", "NOCHANGE"
REFUSE_OR_OK = "REFUSE_OR_OK"  # refusing (state unchanged) or the documented effect
ANYRESULT = "ANYRESULT"  # outcome not specified: refuse atomically or stay well-formed

UNIQUE = ("UniqueConstraintError",)
AMBIG = ("AmbiguousMatchError",)
ANY = None


class Plan:
    def __init__(self, contract, *, why="", refuse=ANY, call=None, apply=None,
                 owner="C04", trigger="", readonly=False, after=None, slots=(),
                 fault_bound="unchanged"):
        self.contract = contract
        self.why = why
        self.refuse = refuse
        self.call = call
        self.apply = apply
        self.owner = owner
        self.trigger = trigger
        self.readonly = readonly
        self.after = after
        self.slots = tuple(slots)
        self.fault_bound = fault_bound  # unchanged | permute | subset | any


HANDLERS = {}


def handler(kind):
    def deco(fn):
        HANDLERS[kind] = fn
        return fn

    return deco


def make_plan(w: World, op: dict) -> Plan:
    if op["k"] not in HANDLERS:
        from . import ops_copy, ops_read, ops_store  # noqa: F401 - register handlers
    return HANDLERS[op["k"]](w, op)


# ------------------------------------------------------------------------------
# helpers
# ------------------------------------------------------------------------------
class UidGen:
    def __init__(self, opid):
        self.opid = opid
        self.k = 0

    def __call__(self):
        u = f"n{self.opid}.{self.k}"
        self.k += 1
        return u


def resolve_data(w: World, src: dict):
    """-> (found, obj)"""
    if "data" in src:
        return True, w.pool.get(src["data"])
    if "data_of" in src:
        _, m = w.mnode(src["data_of"])
        if m is None or m.is_root():
            return False, None
        return True, m.data
    return False, None


def resolve_before(w: World, before, parent: MNode):
    """-> (status, pos, real_before)
    status: 'ok' | 'refuse' | 'excluded' | 'skip'
    pos: index in parent's child list (None = append)
    """
    if before is None:
        return "ok", None, None
    if before is False:
        return "ok", None, False
    if before is True:
        return "ok", 0, True
    if isinstance(before, int):
        n = len(parent.children)
        if before == 0:
            return "ok", 0, 0
        if 0 < before < n:
            return "ok", before, before
        return "excluded", None, None
    uid = before["node"]
    _, b = w.mnode(uid)
    rb = w.real(uid)
    if b is None or rb is None:
        return "skip", None, None
    if b.parent is not parent:
        return "refuse", None, rb
    return "ok", b.index(), rb


def is_typed_obj(w: World, real) -> bool:
    return isinstance(real, (w.nt.TypedTree, w.nt.TypedNode))


def copy_subtree(src: MNode, uidgen, *, deep: bool, kind=None) -> MNode:
    n = MNode(uidgen(), src.data, src.did, explicit=src.explicit,
              kind=src.kind if kind is None else kind)
    if deep:
        for c in src.children:
            n.insert(copy_subtree(c, uidgen, deep=True), None)
    return n


def tree_of(w: World, slot_idx: int) -> MTree:
    return w.slots[slot_idx].model


DEFAULT_KIND = "child"


# ------------------------------------------------------------------------------
# add / shortcuts
# ------------------------------------------------------------------------------
@handler("add")
def plan_add(w: World, op: dict) -> Plan:
    api = op.get("api", "add")
    sibling_api = api in ("append_sibling", "prepend_sibling")
    si, pm = w.mnode(op["parent"])
    if pm is None:
        return Plan(SKIP)
    real_recv = w.real(op["parent"])
    if real_recv is None:
        return Plan(SKIP)
    mt = tree_of(w, si)
    if sibling_api:
        if pm.is_root():
            return Plan(SKIP)
        self_m = pm
        P = pm.parent
    else:
        self_m = None
        P = pm
    typed = mt.typed
    src = op["src"]
    before = op.get("before")
    deep = op.get("deep")
    data_id = op.get("data_id")
    node_id = op.get("node_id")
    kind = op.get("kind")
    uidgen = UidGen(op["id"])
    reasons = []  # refusal reasons
    trigger = f"add-{api}"
    self_copy_deep = False
    subclass_target = False

    # ---- position
    real_before = None
    if api in ("add", "add_child"):
        st, pos, real_before = resolve_before(w, before, P)
        if st == "skip":
            return Plan(SKIP)
        if st == "excluded":
            return Plan(EXCLUDED, why="int before out of documented range")
        if st == "refuse":
            reasons.append("before-not-a-child")
        if before is False:
            trigger += "/before=False"
    elif api == "append_child":
        pos = None
    elif api == "prepend_child":
        pos = 0
    elif api == "prepend_sibling":
        pos = self_m.index()
    elif api == "append_sibling":
        pos = self_m.index() + 1
        if pos >= len(P.children):
            pos = None
    else:
        raise KeyError(api)

    # ---- source
    new_tops: list[MNode] = []
    if "tree" in src:
        sj, sroot = w.mnode(src["tree"])
        if sroot is None:
            return Plan(SKIP)
        real_src = w.real(src["tree"])
        smt = tree_of(w, sj)
        self_copy = sj == si  # a tree added below one of its own nodes: see below
        if not sroot.children:
            # nothing to add: refusing or doing nothing are both fine
            def call_empty():
                kw0 = {}
                if "before" in op and before is not None and not isinstance(before, dict):
                    kw0["before"] = before
                return real_recv.add_child(real_src, **kw0) if api == "add_child" else \
                    getattr(real_recv, api)(real_src, **kw0)

            return Plan(NOCHANGE, why="empty source tree", call=call_empty, owner="C07",
                        trigger="add-add/tree/empty", slots=(si,))
        if sibling_api or api in ("append_child", "prepend_child"):
            return Plan(EXCLUDED, why="tree source only via add()")
        if data_id is not None or node_id is not None:
            return Plan(EXCLUDED, why="ids with tree source")
        if typed and not smt.typed:
            reasons.append("untyped-into-typed")
        elif not typed and smt.typed:
            return Plan(EXCLUDED, why="typed source into untyped tree")
        elif not isinstance(real_src, type(w.slots[si].real)):
            if not isinstance(w.slots[si].real, type(real_src)):
                return Plan(EXCLUDED, why="unrelated tree classes")
            # the target's class is derived from the source's class (a user subclass,
            # FileSystemTree): "If child is a Tree, all of its topnodes are added"
            subclass_target = True
        eff_deep = True if deep is None else bool(deep)
        # typed target: an explicit kind= applies to the new top nodes, as it does
        # for a single node source (the sibling shortcuts pass "the same kind")
        tree_kind = kind if (typed and isinstance(kind, str) and not sibling_api) else None
        for t in sroot.children:
            new_tops.append(copy_subtree(t, uidgen, deep=eff_deep, kind=tree_kind))
        child_real = real_src
        trigger += "/tree"
        if tree_kind is not None:
            trigger += "/kind"
        if subclass_target:
            trigger += "/into-subclass-tree"
        if self_copy and (eff_deep or P.is_root()):
            trigger += "/into-itself"
            self_copy_deep = True
        elif self_copy:
            trigger += "/own-tree-shallow"
        if typed and tree_kind is None and any(t.kind != DEFAULT_KIND for t in new_tops):
            trigger += "/typed-nokind"
        owner = "C07"
    elif "node" in src:
        sj, nm = w.mnode(src["node"])
        child_real = w.real(src["node"])
        if nm is None or nm.is_root() or child_real is None:
            return Plan(SKIP)
        smt = tree_of(w, sj)
        if typed and not smt.typed:
            reasons.append("untyped-into-typed")
        elif not typed and smt.typed:
            return Plan(EXCLUDED, why="typed source into untyped tree")
        eff_deep = bool(deep) if deep is not None else False
        if eff_deep and (data_id is not None or node_id is not None):
            reasons.append("ids-for-deep-copy")
        if data_id is not None and data_id != nm.did:
            reasons.append("data_id-conflict")
        if eff_deep and sj == si and (P is nm or P.is_descendant_of(nm)):
            # copy of a branch below itself: a snapshot copy or a refusal are both
            # acceptable, a corrupted tree is not
            trigger += "/into-itself"
            self_copy_deep = True
        if typed and sibling_api:
            k2 = self_m.kind  # "of same kind"
        else:
            k2 = kind  # None -> keep the source's kind (C07)
        new_tops.append(copy_subtree(nm, uidgen, deep=eff_deep, kind=k2))
        trigger += "/node-deep" if eff_deep else "/node"
        if typed and k2 is None and nm.kind != DEFAULT_KIND:
            trigger += "/typed-nokind"
        if sj == si and nm.parent is not P and nm.parent is P.parent:
            trigger += "/sibling-of-target"
        owner = "C07"
    else:
        found, obj = resolve_data(w, src)
        if not found:
            return Plan(SKIP)
        try:
            did = data_id if data_id is not None else mt.rule(obj)
        except TypeError:
            return Plan(EXCLUDED, why="unhashable data without data_id")
        if deep:
            return Plan(EXCLUDED, why="deep with data source")
        if typed:
            if sibling_api:
                k2 = self_m.kind
            else:
                k2 = kind if kind is not None else DEFAULT_KIND
        else:
            k2 = None
        new_tops.append(MNode(uidgen(), obj, did, explicit=data_id is not None, kind=k2))
        child_real = obj
        trigger += "/data"
        owner = "C04"

    if typed and kind is not None and not isinstance(kind, str) and not sibling_api and "tree" not in src:
        reasons.append("invalid-kind")

    # ---- uniqueness (C03)
    sib_dids = mt.child_dids(P)
    collide = any(t.did in sib_dids for t in new_tops)
    if collide:
        reasons.append("duplicate-sibling")
        trigger += "/collision"

    # ---- real call
    kw = {}
    if api in ("add", "add_child") and "before" in op and before is not None:
        kw["before"] = real_before
    if deep is not None:
        kw["deep"] = deep
    if data_id is not None:
        kw["data_id"] = data_id
    if node_id is not None:
        kw["node_id"] = node_id
        trigger += "/node_id"
    if typed and kind is not None and not sibling_api:
        kw["kind"] = kind

    def call():
        return getattr(real_recv, api)(child_real, **kw)

    if reasons:
        refuse = UNIQUE if reasons == ["duplicate-sibling"] and not self_copy_deep else ANY
        return Plan(REFUSE, why="+".join(reasons), refuse=refuse, call=call,
                    owner=owner, trigger=trigger + "/" + "+".join(reasons), slots=(si,))

    def apply():
        p = pos
        for t in new_tops:
            P.insert(t, p)
            if p is not None:
                p += 1
        if node_id is not None and len(new_tops) == 1:
            new_tops[0].nid = node_id
        return None

    def after(result):
        # "Returns: the new Node instance"
        from .world import Violation

        if "tree" in src:
            if result is not None and any(result is w.real_of.get(t.uid) for t in new_tops):
                return
            raise Violation(owner, "return-value",
                            "add_child(<tree>) does not return one of the new nodes "
                            "(it returns a node of the source tree or None)", trigger)
        if result is not w.real_of.get(new_tops[0].uid):
            raise Violation(owner, "return-value", "add_child() does not return the new node",
                            trigger)

    contract = REFUSE_OR_OK if self_copy_deep else OK
    return Plan(contract, call=call, apply=apply, owner=owner, trigger=trigger, slots=(si,),
                after=after)


# ------------------------------------------------------------------------------
# bulk add (one step = many add() calls): reaches sizes, child counts and depths
# at "natural" boundaries (255..257, 1000..1025) that single adds never reach
# ------------------------------------------------------------------------------
@handler("bulk")
def plan_bulk(w: World, op: dict) -> Plan:
    si, pm = w.mnode(op["parent"])
    rp = w.real(op["parent"])
    if pm is None or rp is None:
        return Plan(SKIP)
    mt = tree_of(w, si)
    n = int(op["n"])
    chain = bool(op.get("chain"))
    clone_key = op.get("clone_leaf")
    prefix = f"B{op['id']}_"
    uidgen = UidGen(op["id"])
    typed = mt.typed
    if mt.flavour == "fs":
        return Plan(EXCLUDED, why="string data in a FileSystemTree")
    objs = [w.pool.get(f"s:{prefix}{i}") for i in range(n)]
    leaf = w.pool.get(clone_key) if clone_key else None
    if leaf is not None:
        try:
            leaf_did = mt.rule(leaf)
        except TypeError:
            return Plan(EXCLUDED, why="unhashable leaf")

    def call():
        cur = rp
        last = None
        for o in objs:
            last = cur.add(o)
            if leaf is not None:
                last.add(leaf)
            if chain:
                cur = last
        return last

    def apply():
        cur = pm
        for o in objs:
            m = MNode(uidgen(), o, mt.rule(o), kind=DEFAULT_KIND if typed else None)
            cur.insert(m, None)
            if leaf is not None:
                m.insert(MNode(uidgen(), leaf, leaf_did, kind=DEFAULT_KIND if typed else None),
                         None)
            if chain:
                cur = m

    return Plan(OK, call=call, apply=apply, trigger="bulk/" + ("chain" if chain else "wide")
                + ("/clones" if leaf is not None else ""), slots=(si,))


# ------------------------------------------------------------------------------
# move_to
# ------------------------------------------------------------------------------
@handler("move")
def plan_move(w: World, op: dict) -> Plan:
    si, nm = w.mnode(op["node"])
    rn = w.real(op["node"])
    if nm is None or nm.is_root() or rn is None:
        return Plan(SKIP)
    ti, tm = w.mnode(op["target"])
    rt = w.real(op["target"])
    if tm is None or rt is None:
        return Plan(SKIP)
    mt = tree_of(w, si)
    before = op.get("before")
    reasons = []
    trigger = "move"
    kw = {}
    pos = None
    if ti != si:
        reasons.append("cross-tree")
        if isinstance(before, dict):
            return Plan(EXCLUDED, why="cross-tree move with before=node")
        if before is not None:
            kw["before"] = before
    else:
        if tm is nm or tm.is_descendant_of(nm):
            reasons.append("into-own-branch")
        if isinstance(before, dict) and before["node"] == op["node"]:
            if tm is not nm.parent or mt.typed:
                reasons.append("before-not-a-child")
            else:
                # "move the node before itself": refusing it or doing nothing are
                # both acceptable, changing the tree is not
                def call_self():
                    return rn.move_to(rt, before=rn)

                return Plan(NOCHANGE, why="before=self", call=call_self,
                            trigger="move/before=self", slots=(si,))
        if tm is nm.parent and isinstance(before, int) and not isinstance(before, bool):
            return Plan(EXCLUDED, why="same-parent move with int index")
        st, pos, real_before = resolve_before(w, before, tm)
        if st == "skip":
            return Plan(SKIP)
        if st == "excluded":
            return Plan(EXCLUDED, why="int before out of documented range")
        if st == "refuse":
            reasons.append("before-not-a-child")
        if before is not None:
            kw["before"] = real_before
        if before is False:
            trigger += "/before=False"
        if any(c.did == nm.did and c is not nm for c in tm.children):
            reasons.append("duplicate-sibling")
    if mt.typed:
        reasons.append("typed-unsupported")

    def call():
        return rn.move_to(rt, **kw)

    if reasons:
        refuse = UNIQUE if reasons == ["duplicate-sibling"] else ANY
        return Plan(REFUSE, why="+".join(reasons), refuse=refuse, call=call,
                    trigger=trigger + "/" + "+".join(reasons), slots=(si, ti))

    if tm is nm.parent:
        trigger += "/same-parent"

    def apply():
        # position is defined relative to the `before` child, so resolve it
        # after the node left its old place
        b = None
        if isinstance(before, dict):
            _, b = w.mnode(before["node"])
        nm.detach()
        if b is not None:
            tm.insert(nm, b.index())
        elif pos is None:
            tm.insert(nm, None)
        else:
            tm.insert(nm, pos)

    return Plan(OK, call=call, apply=apply, trigger=trigger, slots=(si,))


# ------------------------------------------------------------------------------
# remove / remove_children / clear / del
# ------------------------------------------------------------------------------
@handler("remove")
def plan_remove(w: World, op: dict) -> Plan:
    si, nm = w.mnode(op["node"])
    rn = w.real(op["node"])
    if nm is None or nm.is_root() or rn is None:
        return Plan(SKIP)
    mt = tree_of(w, si)
    keep = bool(op.get("keep_children", False))
    wc = bool(op.get("with_clones", False))
    kw = {}
    if "keep_children" in op:
        kw["keep_children"] = keep
    if "with_clones" in op:
        kw["with_clones"] = wc
    group = mt.group_of(nm) if wc else [nm]
    trigger = "remove"
    if keep:
        trigger += "/keep_children"
    if wc:
        trigger += "/with_clones"
        if len(group) > 1:
            trigger += "/group"
        if any(a.is_descendant_of(b) for a in group for b in group if a is not b):
            trigger += "/nested"

    def call():
        return rn.remove(**kw)

    if keep:
        # the structure that remains when every member is gone and its children
        # have moved up (members may be nested) must keep siblings unique
        members = {id(g) for g in group}

        def remaining(nodes):
            for n in nodes:
                if id(n) not in members:
                    yield n
                else:
                    yield from remaining(n.children)

        collide = False
        for g in group:
            if not g.children or id(g.parent) in members:
                continue
            dids = [n.did for n in remaining(g.parent.children)]
            if len(set(dids)) != len(dids):
                collide = True
        if collide:
            return Plan(REFUSE, why="duplicate-sibling", refuse=UNIQUE, call=call,
                        trigger=trigger + "/duplicate-sibling", slots=(si,))

    def apply():
        removed = []

        def in_tree(x):
            while x.parent is not None:
                x = x.parent
            return x is mt.root

        # outermost members first so nested members vanish with their ancestor
        for g in sorted(group, key=lambda x: x.depth()):
            if not in_tree(g):
                continue  # already gone with an ancestor
            if keep and g.children:
                p = g.parent
                i = g.index()
                kids = list(g.children)
                g.children = []
                for k in kids:
                    p.insert(k, i)
                    i += 1
            removed.append(g)
            removed.extend(g.iter_pre())
            g.detach()
        return removed

    return Plan(OK, call=call, apply=apply, trigger=trigger, slots=(si,))


@handler("remove_children")
def plan_remove_children(w: World, op: dict) -> Plan:
    si, nm = w.mnode(op["node"])
    rn = w.real(op["node"])
    if nm is None or nm.is_root() or rn is None:
        return Plan(SKIP)

    def call():
        return rn.remove_children()

    def apply():
        removed = list(nm.iter_pre())
        for c in nm.children:
            c.parent = None
        nm.children = []
        return removed

    return Plan(OK, call=call, apply=apply, trigger="remove_children", slots=(si,))


@handler("clear")
def plan_clear(w: World, op: dict) -> Plan:
    ref = f"T{op['slot']}"
    si, root = w.mnode(ref)
    rt = w.real(ref)
    if root is None or rt is None:
        return Plan(SKIP)

    def call():
        return rt.clear()

    def apply():
        removed = list(root.iter_pre())
        for c in root.children:
            c.parent = None
        root.children = []
        return removed

    return Plan(OK, call=call, apply=apply, trigger="clear", slots=(si,))


@handler("del")
def plan_del(w: World, op: dict) -> Plan:
    ref = f"T{op['slot']}"
    si, root = w.mnode(ref)
    rt = w.real(ref)
    if root is None or rt is None:
        return Plan(SKIP)
    mt = tree_of(w, si)
    key = op["key"]
    if "node" in key:
        rk = w.real(key["node"])
        if rk is None:
            return Plan(SKIP)

        def call_n():
            del rt[rk]

        return Plan(REFUSE, why="node-as-key", call=call_n, trigger="del/node-key", slots=(si,))
    if "did" in key:
        rk = key["did"]
        cands = mt.carriers(rk)
    else:
        found, rk = resolve_data(w, key)
        if not found:
            return Plan(SKIP)
        try:
            cands = mt.carriers(mt.rule(rk))
        except TypeError:
            return Plan(EXCLUDED, why="unhashable key in a tree without id callback")

    def call():
        del rt[rk]

    if not cands:
        return Plan(REFUSE, why="absent-key", refuse=("KeyError",), call=call,
                    trigger="del/absent", slots=(si,))
    if len(cands) > 1:
        return Plan(REFUSE, why="ambiguous-key", refuse=AMBIG, call=call,
                    trigger="del/ambiguous", slots=(si,))
    nm = cands[0]

    def apply():
        removed = [nm] + list(nm.iter_pre())
        nm.detach()
        return removed

    return Plan(OK, call=call, apply=apply, trigger="del", slots=(si,))


# ------------------------------------------------------------------------------
# sort
# ------------------------------------------------------------------------------
def sort_key_fns(w: World, name):
    """-> (real_key or None, model_key)"""
    if name is None:
        return None, (lambda m: m.name)
    if name == "len":
        rk, mk = (lambda n: len(n.name)), (lambda m: len(m.name))
    elif name == "const":
        rk, mk = (lambda n: 0), (lambda m: 0)
    elif name == "rev":
        rk, mk = (lambda n: n.name[::-1]), (lambda m: m.name[::-1])
    else:
        raise KeyError(name)

    def wrapped(n):
        w.fault.tick("key")
        return rk(n)

    return wrapped, mk


@handler("sort")
def plan_sort(w: World, op: dict) -> Plan:
    si, tm = w.mnode(op["target"])
    rt = w.real(op["target"])
    if tm is None or rt is None:
        return Plan(SKIP)
    is_tree = op["target"].startswith("T")
    keyname = op.get("key")
    reverse = bool(op.get("reverse", False))
    deep = op.get("deep")
    rk, mk = sort_key_fns(w, keyname)
    if keyname is None and w.fault is not None:
        # default key cannot be wrapped; sort key faults need a named key
        pass
    kw = {}
    if rk is not None:
        kw["key"] = rk
    if "reverse" in op:
        kw["reverse"] = reverse
    if deep is not None:
        kw["deep"] = deep
    eff_deep = (True if is_tree else False) if deep is None else bool(deep)

    def call():
        if is_tree:
            return rt.sort(**kw)
        return rt.sort_children(**kw)

    def apply():
        def rec(m):
            m.children = sorted(m.children, key=mk, reverse=reverse)
            if eff_deep:
                for c in m.children:
                    rec(c)

        rec(tm)

    return Plan(OK, call=call, apply=apply, trigger="sort" + ("/deep" if eff_deep else ""),
                slots=(si,), fault_bound="permute")


# ------------------------------------------------------------------------------
# set_data / rename
# ------------------------------------------------------------------------------
@handler("set_data")
def plan_set_data(w: World, op: dict) -> Plan:
    si, nm = w.mnode(op["node"])
    rn = w.real(op["node"])
    if nm is None or nm.is_root() or rn is None:
        return Plan(SKIP)
    mt = tree_of(w, si)
    rename = op.get("api") == "rename"
    data_id = op.get("data_id")
    with_clones = op.get("with_clones")
    if rename:
        data = w.pool.get("s:" + op["name"])
        data_id = None
        with_clones = None
    elif op.get("data") is not None:
        found, data = resolve_data(w, op["data"])
        if not found:
            return Plan(SKIP)
    else:
        data = None

    kw = {}
    if data_id is not None:
        kw["data_id"] = data_id
    if "with_clones" in op and not rename:
        kw["with_clones"] = with_clones

    def call():
        if rename:
            return rn.rename(data)
        return rn.set_data(data, **kw)

    trigger = "rename" if rename else "set_data"
    if rename and not isinstance(nm.data, str):
        return Plan(REFUSE, why="rename-non-str", refuse=("ValueError",), call=call,
                    trigger=trigger + "/non-str", slots=(si,))
    if data is None and data_id is None:
        return Plan(REFUSE, why="no-arguments", refuse=("ValueError",), call=call,
                    trigger=trigger + "/no-args", slots=(si,))
    if data is not None and data is not nm.data and data_id is None:
        try:
            mt.rule(data)
        except TypeError:
            return Plan(EXCLUDED, why="unhashable data without data_id")
    group = mt.group_of(nm)
    if len(group) > 1:
        trigger += "/clone"
    if len(group) > 1 and with_clones is None:
        return Plan(REFUSE, why="clone-without-decision", refuse=AMBIG, call=call,
                    trigger=trigger + "/no-decision", slots=(si,))
    new_data = None if (data is None or data is nm.data) else data
    if data_id is not None:
        new_did = data_id
    elif new_data is not None:
        try:
            new_did = mt.rule(new_data)
        except TypeError:
            return Plan(EXCLUDED, why="unhashable data")
    else:
        new_did = None
    if new_did is not None and new_did == nm.did:
        new_did = None
    affected = group if (with_clones and len(group) > 1) else [nm]
    if with_clones and len(group) > 1:
        trigger += "/with_clones"
    if new_did is not None:
        trigger += "/id-change"
        if mt.carriers(new_did):
            trigger += "/merge"
        for a in affected:
            for s in a.parent.children:
                if s is not a and s.did == new_did:
                    return Plan(REFUSE, why="duplicate-sibling", refuse=UNIQUE, call=call,
                                trigger=trigger + "/duplicate-sibling", slots=(si,))

    def apply():
        for a in affected:
            if new_did is not None:
                a.did = new_did
                a.explicit = data_id is not None
            if new_data is not None:
                a.data = new_data

    return Plan(OK, call=call, apply=apply, trigger=trigger, slots=(si,))


# ------------------------------------------------------------------------------
# metadata
# ------------------------------------------------------------------------------
@handler("meta")
def plan_meta(w: World, op: dict) -> Plan:
    si, nm = w.mnode(op["node"])
    rn = w.real(op["node"])
    if nm is None or nm.is_root() or rn is None:
        return Plan(SKIP)
    fn = op["fn"]
    if fn == "set":
        key, value = op["key"], op.get("value")

        def call():
            return rn.set_meta(key, value)

        def apply():
            m = dict(nm.meta or {})
            if value is None:
                m.pop(key, None)
            else:
                m[key] = value
            nm.meta = m or None

    elif fn == "update":
        values = dict(op["values"])
        replace = bool(op.get("replace", False))
        shared = op.get("shared")

        def call():
            if shared:
                # the caller keeps (and re-uses) its dict: nutree must not alias it
                d = w.shared_dicts.get(shared)
                if d is None or d[1] != values:
                    d = (dict(values), dict(values))
                    w.shared_dicts[shared] = d
                return rn.update_meta(d[0], replace=replace)
            return rn.update_meta(dict(values), replace=replace)

        def apply():
            m = {} if replace else dict(nm.meta or {})
            m.update(values)
            nm.meta = m or None

    elif fn == "clear":
        key = op.get("key")

        def call():
            return rn.clear_meta(key) if key is not None else rn.clear_meta()

        def apply():
            if key is None:
                nm.meta = None
            else:
                m = dict(nm.meta or {})
                m.pop(key, None)
                nm.meta = m or None

    else:
        raise KeyError(fn)
    trigger = "meta/" + fn
    if fn == "update" and not values:
        trigger += "/empty"
    return Plan(OK, call=call, apply=apply, trigger=trigger, slots=(si,))


# ------------------------------------------------------------------------------
# Node.from_dict on an (empty) node of an existing tree - "append copies of all
# source children to self"; a duplicate among the new siblings is refused (C13)
# ------------------------------------------------------------------------------
@handler("fromdict")
def plan_fromdict(w: World, op: dict) -> Plan:
    si, nm = w.mnode(op["node"])
    rn = w.real(op["node"])
    if nm is None or rn is None:
        return Plan(SKIP)
    if nm.children:
        return Plan(EXCLUDED, why="from_dict() wants a node without children")
    mt = tree_of(w, si)
    if nm.is_root():
        rn = rn._root  # Tree.from_dict is a constructor; the node method lives on the root
    uidgen = UidGen(op["id"])
    collide = False
    kind = DEFAULT_KIND if mt.typed else None

    class _Skip(Exception):
        pass

    def build(items):
        nonlocal collide
        out_m, out_r, dids = [], [], []
        for src, data_id, kids in items:
            found, obj = resolve_data(w, src)
            if not found:
                raise _Skip()
            did = data_id if data_id is not None else mt.rule(obj)  # TypeError: excluded
            if did in dids:
                collide = True
            dids.append(did)
            m = MNode(uidgen(), obj, did, explicit=data_id is not None, kind=kind)
            r = {"data": obj}
            if data_id is not None:
                r["data_id"] = data_id
            km, kr = build(kids)
            for k in km:
                m.insert(k, None)
            if kr or op.get("empty_children_key"):
                r["children"] = kr
            out_m.append(m)
            out_r.append(r)
        return out_m, out_r

    try:
        new_m, new_r = build(op["items"])
    except _Skip:
        return Plan(SKIP)
    except TypeError:
        return Plan(EXCLUDED, why="unhashable data without data_id")

    use_mapper = bool(op.get("mapper"))

    def mapper(parent, item):
        # "mapper may add item['data_id']"; returns the data object of the new node
        w.fault.tick("mapper")
        return item["data"]

    def call():
        if use_mapper:
            return rn.from_dict(new_r, mapper=mapper)
        return rn.from_dict(new_r)

    trigger = "fromdict" + ("/mapper" if use_mapper else "")
    if collide:
        return Plan(REFUSE, why="duplicate-sibling", refuse=UNIQUE, call=call, owner="C13",
                    trigger=trigger + "/duplicate-sibling", slots=(si,))

    def apply():
        for m in new_m:
            nm.insert(m, None)
        return None

    # a mapper that raises half way: C13 asks for a well-formed tree, not for an
    # unchanged one - nodes created before the fault may stay below the target
    allowed = [m.data for t in new_m for m in [t, *t.iter_pre()]]
    return Plan(OK, call=call, apply=apply, owner="C14", trigger=trigger, slots=(si,),
                fault_bound=("grow", nm.uid, op["id"], allowed))


# ------------------------------------------------------------------------------
# filter (in place) - C08
# ------------------------------------------------------------------------------
VERDICTS = ("T", "F", "N", "SK", "SKself", "SEL", "STOP")
MODES = ("ret", "raise", "raise_cls", "ret_cls")


class PredicateSim:
    """Simulator-owned predicate: per-node verdict plan, returned or raised."""

    def __init__(self, w: World, verdicts: dict, default):
        self.w = w
        self.verdicts = verdicts
        self.default = default
        self.calls: list[str] = []

    def verdict_of(self, uid):
        v = self.verdicts.get(uid, self.default)
        return v[0] if isinstance(v, (list, tuple)) else v

    def mode_of(self, uid):
        v = self.verdicts.get(uid, self.default)
        return v[1] if isinstance(v, (list, tuple)) and v[0] != "SKself" else "ret"

    def model_verdict(self, uid):
        v = self.verdict_of(uid)
        return "F" if v == "N" else v

    def __call__(self, node):
        w = self.w
        w.fault.tick("pred")
        uid = w.uid_of.get(id(node), "?")
        self.calls.append(uid)
        v = self.verdicts.get(uid, self.default)
        verdict, mode = (v[0], v[1]) if isinstance(v, (list, tuple)) else (v, "ret")
        nt = w.nt
        if verdict == "T":
            return True
        if verdict == "F":
            return False
        if verdict == "N":
            return None
        if verdict == "SK":
            cls, inst = nt.SkipBranch, nt.SkipBranch()
        elif verdict == "SKself":
            cls, inst = None, nt.SkipBranch(and_self=False)
        elif verdict == "SEL":
            cls, inst = nt.SelectBranch, nt.SelectBranch()
        elif verdict == "STOP":
            cls, inst = nt.StopTraversal, nt.StopTraversal()
        else:
            raise KeyError(verdict)
        if mode == "ret":
            return inst
        if mode == "ret_cls":
            # "can be returned as value": the control class itself
            return cls if cls is not None else inst
        if mode == "raise_cls" and cls is not None:
            raise cls
        raise inst


@handler("filter")
def plan_filter(w: World, op: dict) -> Plan:
    si, tm = w.mnode(op["target"])
    rt = w.real(op["target"])
    if tm is None or rt is None:
        return Plan(SKIP)
    if op.get("no_predicate"):
        def call_none():
            return rt.filter(None)

        return Plan(REFUSE, why="predicate-required", refuse=("ValueError",),
                    call=call_none, owner="C08", trigger="filter/no-predicate", slots=(si,))
    pred = PredicateSim(w, op.get("verdicts", {}), op.get("default", "F"))
    fr = model_filter(tm, pred.model_verdict)
    used = sorted({pred.verdict_of(u) for u in fr.calls})
    trigger = "filter/" + "+".join(used)
    if any(pred.mode_of(u) == "ret_cls" for u in fr.calls):
        trigger += "/ret_cls"

    def call():
        return rt.filter(pred)

    def apply():
        return apply_filter_inplace(tm, fr.kept)

    def after(_res):
        if pred.calls != fr.calls:
            from .world import Violation
            raise Violation("C08", "predicate-calls",
                            f"predicate called with {pred.calls}, documented scan {fr.calls}",
                            trigger)

    return Plan(OK, call=call, apply=apply, owner="C08", trigger=trigger, after=after,
                slots=(si,), fault_bound="subset")
