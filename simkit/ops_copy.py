"""Copy operations: Tree.copy / Node.copy / filtered / copy(predicate=) into a
scratch slot, Node.copy_to / Tree.copy_to into another parent (C07, C08)."""
from __future__ import annotations

from .model import MNode, MTree, model_filter
from .ops import (ANY, DEFAULT_KIND, EXCLUDED, OK, REFUSE, SKIP, UNIQUE, Plan, PredicateSim,
                  UidGen, handler, plan_add, tree_of)
from .world import Slot, Violation, World, real_children


def _copy_kept(src: MNode, dst: MNode, uidgen, kept, *, dup_defect=None):
    """Append copies of src's children (only uids in `kept`, or all if None)."""
    for c in src.children:
        if kept is not None and c.uid not in kept:
            continue
        n = MNode(uidgen(), c.data, c.did, explicit=c.explicit, kind=c.kind)
        dst.insert(n, None)
        if dup_defect is not None and c.uid in dup_defect:
            d = MNode(uidgen(), c.data, c.did, explicit=c.explicit, kind=c.kind)
            n.insert(d, None)
        _copy_kept(c, n, uidgen, kept, dup_defect=dup_defect)


def _shape_eq(m: MNode, r_obj, typed: bool) -> bool:
    rk = real_children(r_obj)
    if len(rk) != len(m.children):
        return False
    for mc, rc in zip(m.children, rk):
        if rc.data is not mc.data or rc.data_id != mc.did:
            return False
        if not _shape_eq(mc, rc, typed):
            return False
    return True


@handler("copy")
def plan_copy(w: World, op: dict) -> Plan:
    si, sm = w.mnode(op["src"])
    rs = w.real(op["src"])
    if sm is None or rs is None:
        return Plan(SKIP)
    into = op["into"]
    if into == si or into > len(w.slots):
        return Plan(SKIP)
    smt = tree_of(w, si)
    is_tree = op["src"].startswith("T")
    api = op.get("api", "copy")
    add_self = op.get("add_self")
    verdicts = op.get("verdicts")
    uidgen = UidGen(op["id"])
    # copies are created with the class of the source tree (no id hook, no
    # attribute forwarding)
    flavour = {"hook": "plain", "fwd": "plain", "thook": "typed"}.get(smt.flavour, smt.flavour)
    res_model = MTree(flavour)
    trigger = "copy/" + ("tree" if is_tree else "node")

    pred = None
    fr = None
    if api == "filtered" or verdicts is not None:
        if op.get("no_predicate"):
            def call_none():
                return rs.filtered(None)

            return Plan(REFUSE, why="predicate-required", refuse=("ValueError",), call=call_none,
                        owner="C08", trigger="copy/filtered/no-predicate", slots=(si,))
        pred = PredicateSim(w, verdicts or {}, op.get("default", "F"))
        fr = model_filter(sm, pred.model_verdict)
        used = sorted({pred.verdict_of(u) for u in fr.calls})
        trigger = "copy/filtered/" + "+".join(used)
        if any(pred.mode_of(u) == "ret_cls" for u in fr.calls):
            trigger += "/ret_cls"
        owner = "C08"
    else:
        owner = "C07"

    eff_add_self = True if (api == "filtered" or add_self is None) else bool(add_self)
    if is_tree:
        eff_add_self = False
    defect_model = None
    if fr is not None:
        dup = {u for u in fr.calls if pred.model_verdict(u) in ("T", "SKself")}
        if dup:
            defect_model = MTree(flavour)
    top = res_model.root
    dtop = defect_model.root if defect_model is not None else None
    kept = fr.kept if fr is not None else None
    if not is_tree and eff_add_self:
        n = MNode(uidgen(), sm.data, sm.did, explicit=sm.explicit, kind=sm.kind)
        top.insert(n, None)
        top = n
        if dtop is not None:
            dg = UidGen(f"{op['id']}d")
            n2 = MNode(dg(), sm.data, sm.did, explicit=sm.explicit, kind=sm.kind)
            dtop.insert(n2, None)
            dtop = n2
        if smt.typed and sm.kind != DEFAULT_KIND:
            trigger += "/typed-nokind"
    _copy_kept(sm, top, uidgen, kept)
    if dtop is not None:
        _copy_kept(sm, dtop, UidGen(f"{op['id']}e"), kept, dup_defect=dup)
        # the duplicated copy may itself collide with a kept child of equal id
        for dn in defect_model.root.iter_pre(add_self=True):
            ids = [c.did for c in dn.children]
            if len(set(ids)) != len(ids):
                trigger += "/dup-collides-with-child"
                break
    if fr is not None and smt.typed and "typed-nokind" not in trigger and any(
            n.kind != DEFAULT_KIND for n in res_model.root.iter_pre()):
        trigger += "/typed-nokind"

    def call():
        if is_tree:
            if api == "filtered":
                return rs.filtered(pred)
            if pred is not None:
                return rs.copy(predicate=pred)
            return rs.copy()
        if api == "filtered":
            return rs.filtered(pred)
        kw = {}
        if add_self is not None:
            kw["add_self"] = add_self
        if pred is not None:
            kw["predicate"] = pred
        return rs.copy(**kw)

    state = {}

    def apply():
        return None

    def after(result):
        # the result must be a new tree object of the right class
        nt = w.nt
        if not isinstance(result, nt.Tree) or any(s is not None and s.real is result
                                                  for s in w.slots):
            raise Violation(owner, "copy-result", "copy did not return a new tree", trigger)
        if smt.typed and not isinstance(result, nt.TypedTree):
            raise Violation("C07", "copy-class",
                            f"copy of a typed tree is a {type(result).__name__}: kinds are lost",
                            trigger + "/typed-result-class")
        if defect_model is not None and not _shape_eq(res_model.root, result, smt.typed) \
                and _shape_eq(defect_model.root, result, smt.typed):
            raise Violation("C08", "shape",
                            "every accepted node is emitted twice (as its own first child)",
                            trigger + "/accepted-node-duplicated")
        # install into the scratch slot, then compare (binds the new nodes)
        if into < len(w.slots):
            w.unbind_slot(into)
            w.slots[into] = Slot(result, res_model)
        else:
            w.slots.append(Slot(result, res_model))
        from .observe import compare_slot

        compare_slot(w, into, owner, trigger)
        if pred is not None and pred.calls != fr.calls:
            raise Violation("C08", "predicate-calls",
                            f"predicate called with {pred.calls}, documented scan {fr.calls}",
                            trigger)

    return Plan(OK, call=call, apply=apply, owner=owner, trigger=trigger, after=after,
                slots=(si,), readonly=True)


@handler("copy_to")
def plan_copy_to(w: World, op: dict) -> Plan:
    si, sm = w.mnode(op["src"])
    rs = w.real(op["src"])
    ti, tm = w.mnode(op["target"])
    rt = w.real(op["target"])
    if sm is None or rs is None or tm is None or rt is None:
        return Plan(SKIP)
    is_tree = op["src"].startswith("T")
    add_self = op.get("add_self")
    before = op.get("before")
    deep = op.get("deep")
    smt, tmt = tree_of(w, si), tree_of(w, ti)
    kw = {}
    if not is_tree:
        if add_self is not None:
            kw["add_self"] = add_self
        if "before" in op and before is not None:
            pass  # resolved below
    if deep is not None:
        kw["deep"] = deep
    eff_add_self = False if is_tree else (True if add_self is None else bool(add_self))
    eff_deep = (True if is_tree else False) if deep is None else bool(deep)

    if eff_add_self:
        # documented as target.add_child(self, before=, deep=)
        add_op = {"id": op["id"], "k": "add", "api": "add", "parent": op["target"],
                  "src": {"node": op["src"]}, "deep": eff_deep}
        if "before" in op:
            add_op["before"] = before
        p = plan_add(w, add_op)
        if p.contract in (SKIP, EXCLUDED):
            return p
        from .ops import resolve_before

        _st, _pos, real_before = resolve_before(w, before, tm)
        if before is not None:
            kw["before"] = real_before

        def call_self():
            return rs.copy_to(rt, **kw)

        p.call = call_self
        p.trigger = p.trigger.replace("add-add", "copy_to")
        p.owner = "C07"
        return p

    trigger = "copy_to/" + ("tree" if is_tree else "children")
    if before is not None:
        def call_b():
            from .ops import resolve_before as rb
            _s, _p, real_b = rb(w, before, tm)
            return rs.copy_to(rt, add_self=False, before=real_b, **{k: v for k, v in kw.items()
                                                                     if k != "add_self"})

        if isinstance(before, dict) and w.real(before["node"]) is None:
            return Plan(SKIP)
        return Plan(REFUSE, why="before-with-add_self-false", call=call_b, owner="C07",
                    trigger=trigger + "/before", slots=(si, ti))

    def call():
        return rs.copy_to(rt, **kw)

    if not sm.children:
        return Plan(REFUSE, why="no-children", refuse=("ValueError",), call=call, owner="C07",
                    trigger=trigger + "/empty", slots=(si, ti))
    if tmt.typed and not smt.typed:
        return Plan(REFUSE, why="untyped-into-typed", call=call, owner="C07",
                    trigger=trigger + "/untyped-into-typed", slots=(si, ti))
    if smt.typed and not tmt.typed:
        return Plan(EXCLUDED, why="typed source into untyped tree")
    # deep copy of children into (a descendant of) one of them: a snapshot copy or a
    # refusal are both acceptable, a corrupted tree is not
    into_itself = eff_deep and si == ti and any(
        tm is c or tm.is_descendant_of(c) for c in sm.children)
    sib = tmt.child_dids(tm)
    if any(c.did in sib for c in sm.children):
        return Plan(REFUSE, why="duplicate-sibling", refuse=ANY if into_itself else UNIQUE,
                    call=call, owner="C07",
                    trigger=trigger + "/collision/duplicate-sibling", slots=(si, ti))
    if tmt.typed and any(c.kind != DEFAULT_KIND for c in sm.children):
        trigger += "/typed-nokind"
    uidgen = UidGen(op["id"])

    def apply():
        from .ops import copy_subtree

        copies = [copy_subtree(c, uidgen, deep=eff_deep) for c in list(sm.children)]
        for c in copies:
            tm.insert(c, None)

    from .ops import REFUSE_OR_OK

    if into_itself:
        trigger += "/into-itself"
    return Plan(REFUSE_OR_OK if into_itself else OK, call=call, apply=apply, owner="C07",
                trigger=trigger, slots=(si, ti))
