"""Data pool of a run: the Python objects handed to nutree as node data.

Objects are addressed by *keys* (plain strings) so that operation records are
JSON and never contain `id()`/`hash()` values. The pool is a pure function of
the keys requested, so a replay rebuilds identical objects.

Key grammar
    s:<label>        the str <label>
    i:<n>            the int n (0 included: falsy data is legal node data; only
                     set_data(<falsy>) is an excluded argument class)
    t:<n>#<j>        j-th instance of the tuple (n, "t")  (equal, distinct objects)
    d:<n>#<j>        j-th instance of the frozen dataclass FPerson("p<n>", n)
    w:<n>            DictWrapper around its own dict {"val": n}   (identity hashed)
    o:<n>            Obj(guid="g<n>", label="o<n>")  (identity hashed unless the
                     tree has the guid hook, then data_id == "g<n>")
    x:<n>            the float <n>.0: equal to the int n (same hash), but keyed "F:<n>.0" by
                     the id callback - drawn for trees with the id callback only
    u:<n>            native dict {"guid": "gu<n>", "u": n}: unhashable, usable only with
                     an explicit data_id or in a tree whose id callback keys it.
                     u:4 is an HDict: its *type* defines __hash__, but hash() of the
                     value raises TypeError (like a tuple that holds a list)
    f:<n> / g:<n>    nutree.fs.FileSystemEntry file "f<n>.txt" / folder "g<n>"
                     (identity hashed; only in runs with a FileSystemTree slot)
    r:<...>          objects created by a restart (re-bound by the harness)
"""
from __future__ import annotations

from dataclasses import dataclass


@dataclass(frozen=True)
class FPerson:
    name: str
    age: int

    def __str__(self) -> str:  # used by Node.name
        return f"FPerson<{self.name}>"


class HDict(dict):
    """A value that is unhashable although its type defines __hash__ (the shape of a
    tuple or frozen dataclass that holds a list): hash() raises TypeError at run time."""

    def __hash__(self):  # noqa: D105
        raise TypeError("unhashable value: HDict")


class Obj:
    """Plain object with a guid; hash/eq by identity (object default)."""

    __slots__ = ("guid", "label")

    def __init__(self, guid: str, label: str):
        self.guid = guid
        self.label = label

    def __repr__(self) -> str:
        return f"Obj<{self.label}>"


def guid_hook(tree, data):
    """calc_data_id callback as in ug_objects.rst (objects keyed by their guid);
    plain strings are keyed case-insensitively, so 'a' and 'A' are clones and
    every string node of a hook tree carries a custom (non-hash) data_id."""
    if hasattr(data, "guid"):
        return data.guid
    if isinstance(data, dict):
        return data["guid"]  # "Adding Native Dictionaries" in ug_objects.rst
    if isinstance(data, str):
        return "L:" + data.lower()
    if isinstance(data, float):
        return "F:%r" % data  # type aware: 1.0 is not 1 (although 1.0 == 1)
    return hash(data)


class Pool:
    def __init__(self, nutree_mod):
        self._nt = nutree_mod
        self._objs: dict[str, object] = {}
        self._key_by_id: dict[int, str] = {}
        self._keep: list[object] = []  # keep every object alive (stable id())

    def get(self, key: str):
        try:
            return self._objs[key]
        except KeyError:
            pass
        obj = self._make(key)
        self.register(key, obj)
        return obj

    def register(self, key: str, obj) -> None:
        self._objs[key] = obj
        self._keep.append(obj)
        # first registration wins (str/int objects may be shared between keys)
        self._key_by_id.setdefault(id(obj), key)

    def key_of(self, obj) -> str | None:
        """Key of this very object (identity), or None."""
        k = self._key_by_id.get(id(obj))
        if k is not None and self._objs.get(k) is obj:
            return k
        for k, o in self._objs.items():
            if o is obj:
                return k
        return None

    def _make(self, key: str):
        flavour, _, rest = key.partition(":")
        if flavour == "s":
            # build at run time so that two keys never share an interned object
            return "".join(list(rest))
        if flavour == "i":
            return int(rest)
        if flavour == "x":
            return float(int(rest))
        if flavour == "t":
            n, _, _j = rest.partition("#")
            return tuple([int(n), "t"])
        if flavour == "d":
            n, _, _j = rest.partition("#")
            return FPerson("p" + n, int(n))
        if flavour == "w":
            if int(rest) == 9:
                # a user dict that has a field called "kind" (reserved in typed trees
                # only; drawn for trees without a typed slot)
                return self._nt.DictWrapper({"val": 9, "kind": "user-kind"})
            return self._nt.DictWrapper({"val": int(rest)})
        if flavour == "o":
            return Obj("g" + rest, "o" + rest)
        if flavour == "u":
            if int(rest) == 4:
                return HDict({"guid": "gu4", "u": 4})
            return {"guid": "gu" + rest, "u": int(rest)}
        if flavour in ("f", "g"):
            import importlib

            fs = importlib.import_module("nutree.fs")
            if flavour == "g":
                return fs.FileSystemEntry("g" + rest, is_dir=True)
            n = int(rest)
            return fs.FileSystemEntry(f"f{n}.txt", size=10 * n, mdate=1_600_000_000.5 + n)
        raise KeyError(key)


# --- value codec used by the simulator-supplied (de)serialisation mappers ------
def encode_value(obj) -> dict:
    """data object -> flat JSON dict (inverse of decode_value)."""
    if isinstance(obj, bool):
        raise TypeError(obj)
    if isinstance(obj, int):
        return {"type": "int", "v": obj}
    if isinstance(obj, float):
        return {"type": "float", "v": obj}
    if isinstance(obj, tuple):
        return {"type": "tup", "v": obj[0]}
    if isinstance(obj, FPerson):
        return {"type": "person", "name": obj.name, "age": obj.age}
    if isinstance(obj, Obj):
        return {"type": "obj", "guid": obj.guid, "name": obj.label}
    if obj.__class__.__name__ == "DictWrapper":
        return {"type": "wrap", "v": obj._dict["val"]}
    if isinstance(obj, dict):
        return {"type": "udict", "guid": obj["guid"], "v": obj["u"]}
    if obj.__class__.__name__ == "FileSystemEntry":
        # exactly what FileSystemTree.serialize_mapper stores
        if obj.is_dir:
            return {"n": obj.name, "d": True}
        return {"n": obj.name, "s": obj.size, "m": obj.mdate}
    raise TypeError(f"no codec for {type(obj)}")


def decode_value(d: dict, nutree_mod):
    if "type" not in d and "n" in d:
        import importlib

        fs = importlib.import_module("nutree.fs")
        if d.get("d"):
            return fs.FileSystemEntry(d["n"], is_dir=True)
        return fs.FileSystemEntry(d["n"], size=d["s"], mdate=d["m"])
    t = d["type"]
    if t == "int":
        return int(d["v"])
    if t == "float":
        return float(d["v"])
    if t == "tup":
        return tuple([int(d["v"]), "t"])
    if t == "person":
        return FPerson(d["name"], int(d["age"]))
    if t == "obj":
        return Obj(d["guid"], d["name"])
    if t == "wrap":
        if int(d["v"]) == 9:
            return nutree_mod.DictWrapper({"val": 9, "kind": "user-kind"})
        return nutree_mod.DictWrapper({"val": int(d["v"])})
    if t == "udict":
        if int(d["v"]) == 4:
            return HDict({"guid": d["guid"], "u": 4})
        return {"guid": d["guid"], "u": int(d["v"])}
    raise TypeError(t)


def value_equal(a, b) -> bool:
    """Equality 'as rebuilt by the mapper' (type and value fields)."""
    num = (int, float)
    if isinstance(a, num) and isinstance(b, num) and not isinstance(a, bool) \
            and not isinstance(b, bool):
        return a == b  # 1 and 1.0 are one value (equal, same hash) for a tree without callback
    if type(a) is not type(b):
        return False
    if isinstance(a, (str, int, float, tuple, FPerson)):
        return a == b
    if isinstance(a, Obj):
        return a.guid == b.guid and a.label == b.label
    if a.__class__.__name__ == "DictWrapper":
        return a._dict == b._dict
    if a.__class__.__name__ == "FileSystemEntry":
        return (a.name, a.is_dir, a.size, a.mdate) == (b.name, b.is_dir, b.size, b.mdate)
    return a == b


def flavour_of(obj) -> str:
    if isinstance(obj, str):
        return "s"
    if isinstance(obj, int):
        return "i"
    if isinstance(obj, float):
        return "x"
    if isinstance(obj, tuple):
        return "t"
    if isinstance(obj, FPerson):
        return "d"
    if isinstance(obj, Obj):
        return "o"
    if isinstance(obj, dict):
        return "u"
    if obj.__class__.__name__ == "FileSystemEntry":
        return "f"
    return "w"


_UNHASHABLE = object()


def dhash(obj):
    """hash(obj), or a value equal to nothing else for unhashable data (so that
    `data_id != dhash(data)` reads "custom id")."""
    try:
        return hash(obj)
    except TypeError:
        return _UNHASHABLE
