"""PrngSim (C20): build_random_tree with nutree's `random` owned by the simulator.

`nutree.tree_generator.random` is rebound to a `SimRandom(seed)`; in edge mode
its draws are biased to range ends and to values around the probabilities used
by the structure definition (the places where an off-by-one or a wrong
comparison shows).
"""
from __future__ import annotations

import json
import random as _random
from datetime import date, datetime, timedelta, timezone

from . import rng as R


class SimRandom:
    def __init__(self, seed, edge=False, probs=()):
        self._r = _random.Random(seed)
        self.edge = edge
        self.probs = list(probs)
        self.calls = {"random": 0, "uniform": 0, "randrange": 0, "sample": 0}
        self.edge_draws = 0

    def random(self):
        self.calls["random"] += 1
        if self.edge and self._r.random() < 0.6:
            self.edge_draws += 1
            cands = [0.0, 1.0 - 2 ** -53]
            for p in self.probs:
                for d in (-1e-12, 0.0, 1e-12):
                    v = p + d
                    if 0.0 <= v < 1.0:
                        cands.append(v)
            return self._r.choice(cands)
        return self._r.random()

    def uniform(self, a, b):
        self.calls["uniform"] += 1
        if self.edge and self._r.random() < 0.5:
            self.edge_draws += 1
            return self._r.choice([a, b])
        return self._r.uniform(a, b)

    def randrange(self, start, stop=None, step=1):
        self.calls["randrange"] += 1
        if stop is None:
            start, stop = 0, start
        if self.edge and self._r.random() < 0.6 and stop > start:
            self.edge_draws += 1
            return self._r.choice([start, stop - 1])
        return self._r.randrange(start, stop, step)

    def sample(self, population, k, *, counts=None):
        self.calls["sample"] += 1
        return self._r.sample(population, k, counts=counts)

    def choice(self, seq):
        return self._r.choice(seq)

    def shuffle(self, x):
        return self._r.shuffle(x)

    def __getattr__(self, name):
        return getattr(self._r, name)


class Plain:
    """Alternative :factory (a simple class taking **kwargs)."""

    def __init__(self, **kw):
        self.__dict__.update(kw)

    def __repr__(self):
        return f"Plain<{sorted(self.__dict__.items())}>"


# ------------------------------------------------------------------------------
# structure definition generator (JSON-describable; randomizers built from it)
# ------------------------------------------------------------------------------
def draw_structure(rng):
    """-> plain description (dict) from which the real structure_def is built"""
    n_types = rng.randint(1, 4)
    types = [f"T{i}" for i in range(n_types)]

    def attr_spec():
        r = rng.random()
        if r < 0.2:
            return {"fixed": rng.choice([1, "x", True, 3.5, None, 0, ""])}
        if r < 0.3:
            return {"fixed": rng.choice(["{idx}", "n{idx}", "{hier_idx}", "p{hier_idx}-{idx}"])}
        p = rng.choice([1.0, 1.0, 0.0, 0.3, 0.5, 0.9])
        if r < 0.45:
            a = rng.randint(-3, 5)
            return {"range": [a, a + rng.randint(1, 6)], "p": p,
                    "none_value": rng.choice([None, None, -99])}
        if r < 0.55:
            a = rng.choice([0.0, 1.5, -2.0])
            return {"range": [a, a + rng.choice([0.5, 1.0, 10.0])], "p": p}
        if r < 0.68:
            return {"date": ["2020-01-01", rng.choice([1, 2, 30, "2020-03-01"])],
                    "js": rng.random() < 0.5, "p": p}
        if r < 0.78:
            return {"value": rng.choice(["v", 42, 0, False, "", "i{idx}", "h{hier_idx}"]),
                    "p": rng.choice([0.0, 0.3, 0.7, 1.0])}
        if r < 0.86:
            return {"sparse": True, "p": rng.choice([0.0, 0.2, 0.8, 1.0])}
        vals = rng.sample(["a", "b", "c", "d", 1, 2, 0, False, "", "s{idx}", "p{hier_idx}"],
                          rng.randint(1, 4))
        counts = None
        if rng.random() < 0.4:
            counts = [rng.choice([0, 1, 3]) for _ in vals]
            if not any(counts):
                counts[0] = 1
        return {"sample": vals, "counts": counts, "p": p}

    def attrs(n_max=3):
        return {f"k{i}": attr_spec() for i in rng.sample(range(6), rng.randint(0, n_max))}

    def count_spec():
        r = rng.random()
        if r < 0.5:
            return rng.choice([0, 1, 2, 2, 3, 4])
        a = rng.randint(0, 2)
        return {"range": [a, a + rng.randint(1, 3)], "p": rng.choice([1.0, 1.0, 0.5, 0.0])}

    desc = {"name": rng.choice([None, "rnd"]), "types": {}, "relations": {}}
    if rng.random() < 0.5:
        desc["types"]["*"] = attrs(2)
        if rng.random() < 0.3:
            desc["types"]["*"][":factory"] = "Plain"
    for t in types:
        if rng.random() < 0.5:
            desc["types"][t] = attrs(2)
            if rng.random() < 0.3:
                desc["types"][t][":count"] = count_spec()  # a default count for this type
    if "*" in desc["types"] and rng.random() < 0.15:
        desc["types"]["*"][":count"] = count_spec()

    def rel(children):
        out = {}
        for c in children:
            spec = attrs(3)
            if rng.random() < 0.1:
                # a randomizer whose generate() itself builds a (small) random tree, followed
                # by an attribute that uses the macros of the *outer* node
                spec["ka_nested"] = {"nested": True}
                spec["kz_idx"] = {"fixed": "z{idx}-{hier_idx}"}
            spec["t"] = {"fixed": c}
            if rng.random() < 0.85:
                spec[":count"] = count_spec()
            out[c] = spec
        return out

    desc["relations"]["__root__"] = rel(rng.sample(types, rng.randint(1, min(2, n_types))))
    for i, t in enumerate(types):
        later = types[i + 1:]
        if later and rng.random() < 0.85:
            desc["relations"][t] = rel(rng.sample(later, rng.randint(1, min(2, len(later)))))
    if rng.random() < 0.25:
        # a type that may contain itself (folder in folder); the count 0..1 keeps the
        # expected depth small
        t = rng.choice(types)
        spec = attrs(2)
        spec["t"] = {"fixed": t}
        spec[":count"] = {"range": [0, 2], "p": 1.0}
        desc["relations"].setdefault(t, {})[t] = spec
        desc["recursive"] = t
    return desc


def _parse_date(s):
    y, m, d = s.split("-")
    return date(int(y), int(m), int(d))


def build_structure(desc, tg):
    """description -> real structure_def with Randomizer instances"""
    def conv_attr(a):
        if "fixed" in a:
            return a["fixed"]
        if "range" in a:
            kw = {"probability": float(a["p"])}
            if a.get("none_value") is not None:
                kw["none_value"] = a["none_value"]
            return tg.RangeRandomizer(a["range"][0], a["range"][1], **kw)
        if "date" in a:
            mx = a["date"][1]
            return tg.DateRangeRandomizer(_parse_date(a["date"][0]),
                                          mx if isinstance(mx, int) else _parse_date(mx),
                                          as_js_stamp=a["js"], probability=float(a["p"]))
        if "value" in a:
            return tg.ValueRandomizer(a["value"], probability=float(a["p"]))
        if "sparse" in a:
            return tg.SparseBoolRandomizer(probability=float(a["p"]))
        if "sample" in a:
            return tg.SampleRandomizer(a["sample"], counts=a["counts"], probability=float(a["p"]))
        if "nested" in a:
            class NestedBuild(tg.Randomizer):
                def generate(self):
                    import nutree

                    nutree.Tree.build_random_tree({"relations": {"__root__": {
                        "inner": {":count": 3, "title": "i{idx}/{hier_idx}"}}}})
                    return "nested"

            return NestedBuild()
        raise KeyError(a)

    def conv_spec(spec):
        out = {}
        for k, v in spec.items():
            if k == ":count":
                out[k] = v if isinstance(v, int) else tg.RangeRandomizer(
                    v["range"][0], v["range"][1], probability=float(v["p"]))
            elif k == ":factory":
                out[k] = Plain
            else:
                out[k] = conv_attr(v)
        return out

    sd = {"relations": {p: {c: conv_spec(s) for c, s in rel.items()}
                        for p, rel in desc["relations"].items()}}
    if desc["types"]:
        sd["types"] = {t: conv_spec(s) for t, s in desc["types"].items()}
    if desc.get("name"):
        sd["name"] = desc["name"]
    return sd


def all_probs(desc):
    ps = set()

    def walk(o):
        if isinstance(o, dict):
            if "p" in o and isinstance(o["p"], (int, float)):
                ps.add(float(o["p"]))
            for v in o.values():
                walk(v)

    walk(desc)
    return sorted(ps)


# ------------------------------------------------------------------------------
# oracle
# ------------------------------------------------------------------------------
def merged_spec(desc, node_type, rel_spec):
    res = dict(desc["types"].get("*", {}))
    res.update(desc["types"].get(node_type, {}))
    res.update(rel_spec)
    return res


def get_attrs(data):
    if hasattr(data, "_dict"):
        return dict(data._dict)
    return dict(data.__dict__)


def check_value(name, a, val, present, macros, fail):
    if "fixed" in a:
        exp = a["fixed"]
        if isinstance(exp, str):
            exp = exp.format(**macros)
        if not present or val != exp or type(val) is not type(exp):
            fail("attr-fixed", f"attribute {name} is {val!r} ({'present' if present else 'absent'})"
                               f", definition says {exp!r}")
        return
    if "nested" in a:
        if not present or val != "nested":
            fail("attr-value", f"{name}={val!r}, the randomizer returned 'nested'")
        return
    p = float(a["p"])
    if not present:
        if p >= 1.0:
            fail("attr-missing", f"attribute {name} (probability 1.0) is absent")
        return
    if p <= 0.0 and not (a.get("none_value") is not None and val == a["none_value"]):
        fail("attr-p0", f"attribute {name} (probability 0.0) is present with a generated value")
    if val is None:
        fail("attr-none", f"skipped attribute {name} is present with value None")
    if "range" in a:
        lo, hi = a["range"]
        if a.get("none_value") is not None and val == a["none_value"]:
            return
        if isinstance(lo, float):
            if not isinstance(val, float) or not (lo <= val <= hi):
                fail("attr-range", f"{name}={val!r} outside [{lo}, {hi}]")
        elif isinstance(val, bool) or not isinstance(val, int) or not (lo <= val <= hi):
            fail("attr-range", f"{name}={val!r} outside [{lo}, {hi}]")
    elif "date" in a:
        lo = _parse_date(a["date"][0])
        mx = a["date"][1]
        hi = lo + timedelta(days=mx) if isinstance(mx, int) else _parse_date(mx)
        if a["js"]:
            if not isinstance(val, float):
                fail("attr-date", f"{name}={val!r} is not a JS time stamp")
            d = datetime.fromtimestamp(val / 1000.0, tz=timezone.utc).date()
            if not (lo <= d <= hi):  # (the stamp is the drawn day + 1 day, still <= max)
                fail("attr-date", f"{name} stamp is {d}, declared range {lo}..{hi}")
        else:
            if not isinstance(val, date) or not (lo <= val <= hi):
                fail("attr-date", f"{name}={val!r} outside {lo}..{hi}")
    elif "value" in a:
        exp = a["value"]
        if isinstance(exp, str):
            exp = exp.format(**macros)  # macros are expanded in generated strings as well
        if val != exp or type(val) is not type(exp):
            fail("attr-value", f"{name}={val!r}, declared value {exp!r}")
    elif "sparse" in a:
        if val is not True:
            fail("attr-sparse", f"{name}={val!r}, a sparse bool is True or absent")
    elif "sample" in a:
        allowed = [v.format(**macros) if isinstance(v, str) else v
                   for v, c in zip(a["sample"], a["counts"] or [1] * len(a["sample"])) if c > 0]
        if not any(val == v and type(val) is type(v) for v in allowed):
            fail("attr-sample", f"{name}={val!r} not in the declared sample {allowed!r}")


def check_tree(tree, desc, typed, cls, fail):
    if not isinstance(tree, cls):
        fail("class", f"result is a {type(tree).__name__}, requested {cls.__name__}")

    def rec(parent_obj, parent_type, prefix):
        kids = list(parent_obj.children)
        rels = desc["relations"].get(parent_type, {})
        by_type = {}
        for n in kids:
            at = get_attrs(n.data)
            t = at.get("t")
            if t not in rels:
                fail("relation", f"a node of type {t!r} below {parent_type!r} is not allowed "
                                 f"by the relations ({sorted(rels)})")
            if typed and n.kind != t:
                fail("kind", f"typed node of type {t!r} has kind {n.kind!r}")
            by_type.setdefault(t, []).append(n)
        for t, spec in rels.items():
            nodes = by_type.get(t, [])
            m = merged_spec(desc, t, spec)
            cnt = m.get(":count", 1)
            if isinstance(cnt, int):
                if len(nodes) != cnt:
                    fail("count", f"{len(nodes)} children of type {t} below {parent_type}, "
                                  f"definition says {cnt}")
            else:
                lo, hi = cnt["range"]
                ok = lo <= len(nodes) <= hi or (float(cnt["p"]) < 1.0 and len(nodes) == 0)
                if not ok:
                    fail("count", f"{len(nodes)} children of type {t} below {parent_type}, "
                                  f"declared range [{lo}, {hi}]")
            want_factory = Plain if m.get(":factory") == "Plain" else None
            for i, n in enumerate(nodes, 1):
                p = f"{prefix}.{i}" if prefix else f"{i}"
                macros = {"idx": i, "hier_idx": p}
                at = get_attrs(n.data)
                if want_factory is not None and not isinstance(n.data, Plain):
                    fail("factory", f"node data is {type(n.data).__name__}, :factory says Plain")
                if want_factory is None and type(n.data).__name__ != "DictWrapper":
                    fail("factory", f"node data is {type(n.data).__name__}, default factory "
                                    f"is DictWrapper")
                names = [k for k in m if not k.startswith(":")]
                for k in at:
                    if k not in names:
                        fail("attr-extra", f"attribute {k!r} is not part of the merged "
                                           f"definition {names}")
                for k in names:
                    check_value(k, m[k], at.get(k), k in at, macros, fail)
                if t in desc["relations"]:
                    rec(n, t, p)
                elif list(n.children):
                    fail("relation", f"type {t} has no relations but the node has children")

    rec(tree, "__root__", "")


def prng_case(base_seed, index, tier, nt):
    import nutree.tree_generator as tg

    seed = R.run_seed(base_seed, "prng", "C20", index)
    rng = R.stream(seed, "def")
    desc = draw_structure(rng)
    typed = rng.random() < 0.5
    edge = rng.random() < 0.6
    cls = nt.TypedTree if typed else nt.Tree
    viol = []
    sim = SimRandom(R._h(seed, "prng"), edge=edge, probs=all_probs(desc))

    class _Fail(Exception):
        pass

    def fail(check, detail):
        viol.append((check, detail, f"build/{'typed' if typed else 'plain'}"
                                    f"{'/edge' if edge else ''}"))
        raise _Fail()

    old = tg.random
    tg.random = sim
    try:
        sd = build_structure(desc, tg)
        try:
            tree = cls.build_random_tree(sd)
        except Exception as e:  # noqa: BLE001
            viol.append(("build-raised", f"build_random_tree raised {type(e).__name__}: {e}",
                         f"build/{'typed' if typed else 'plain'}{'/edge' if edge else ''}"))
            tree = None
    finally:
        tg.random = old
    nodes = 0
    if tree is not None:
        nodes = len(tree)
        try:
            check_tree(tree, desc, typed, cls, fail)
        except _Fail:
            pass
        if desc.get("name") and tree.name != desc["name"]:
            viol.append(("name", f"tree name {tree.name!r}", "build"))
    rebuilt = False
    if tree is not None and not viol and rng.random() < 0.35:
        # the caller edits the *same* definition object in place and builds again: the
        # second tree must follow the edited definition (nothing may be remembered)
        rebuilt = True
        p_ = "__root__"  # (never the self-containing relation: its count must stay 0..1)
        c_ = sorted(desc["relations"][p_])[0]
        new_count = rng.choice([0, 1, 3])
        desc["relations"][p_][c_][":count"] = new_count
        sd["relations"][p_][c_][":count"] = new_count
        desc["relations"][p_][c_]["kx"] = {"fixed": f"second-{new_count}"}
        sd["relations"][p_][c_]["kx"] = f"second-{new_count}"
        if desc["types"]:
            t_ = sorted(desc["types"])[0]
            desc["types"][t_]["ky"] = {"fixed": 77}
            sd["types"][t_]["ky"] = 77
        tg.random = sim
        tree2 = None
        try:
            tree2 = cls.build_random_tree(sd)
        except Exception as e:  # noqa: BLE001
            viol.append(("build-raised", f"second build_random_tree raised "
                                         f"{type(e).__name__}: {e}", "rebuild"))
        finally:
            tg.random = old
        if tree2 is not None:
            def fail2(check, detail):
                viol.append((check, "after editing the definition in place: " + detail,
                             "rebuild"))
                raise _Fail()

            try:
                check_tree(tree2, desc, typed, cls, fail2)
            except _Fail:
                pass
    stats = {"nodes": nodes, "prng_calls": dict(sim.calls), "edge_draws": sim.edge_draws,
             "edge": edge, "typed": typed, "rebuilt": rebuilt}
    return viol, stats, desc, seed


def prng_block(start, stop, *, prop, tier, base_seed, avoid_patterns=(), known_patterns=(),
               engine="prng", cfg_overrides=None):
    from .batch import Agg
    from .world import import_nutree

    nt = import_nutree()
    agg = Agg()
    agg.extra = {"nodes": 0, "prng_calls": {}, "edge_runs": 0, "typed_runs": 0, "edge_draws": 0}
    for index in range(start, stop):
        viol, stats, desc, seed = prng_case(base_seed, index, tier, nt)
        agg.runs += 1
        agg.steps += stats["nodes"]
        agg.extra["nodes"] += stats["nodes"]
        agg.extra["edge_runs"] += 1 if stats["edge"] else 0
        agg.extra["typed_runs"] += 1 if stats["typed"] else 0
        agg.extra["edge_draws"] += stats["edge_draws"]
        for k, v in stats["prng_calls"].items():
            agg.extra["prng_calls"][k] = agg.extra["prng_calls"].get(k, 0) + v
        agg.fault_fired["F-prng-edge"] = agg.fault_fired.get("F-prng-edge", 0) + stats["edge_draws"]
        if stats["nodes"] >= 2:
            agg.run_digests_nontrivial.add(R.digest((json.dumps(desc, sort_keys=True),
                                                     stats["typed"], stats["edge"])))
        for check, detail, trig in viol:
            agg.violations.append((index, seed, 0, "C20", check, trig, detail[:600],
                                   {"engine": "prng", "index": index}))
        if len(agg.samples) < 2:
            agg.samples.append({"index": index, "seed": seed, "typed": stats["typed"],
                                "edge_mode": stats["edge"], "structure": desc,
                                "nodes": stats["nodes"]})
    return agg


def rebuild_record(seed, prop, tier, recipe, nt):
    index = recipe["index"] if isinstance(recipe, dict) else recipe[1]
    _v, stats, desc, rseed = prng_case(seed, index, tier, nt)
    return {"engine": "prng", "prop": prop, "base_seed": seed, "index": index, "tier": tier,
            "seed": rseed, "structure": desc, "typed": stats["typed"], "edge_mode": stats["edge"]}


def replay_record(record, prop, nt):
    viol, _stats, _desc, _seed = prng_case(record["base_seed"], record["index"],
                                           record.get("tier", "quick"), nt)
    return [("C20", c, t, d) for c, d, t in viol]
