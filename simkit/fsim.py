"""FsSim (C19): load_tree_from_fs on a real scratch directory whose enumeration
order and stat values are decided by the simulator."""
from __future__ import annotations

import json
import os
import shutil
import tempfile

from . import rng as R
from . import store as S

NAMES = ["a", "B", "b", "A1", "a10", "a2", "Z", "_x", "ä", "é.txt", "file.txt", "file", "10",
         "9", ".hidden", "a.b", "a-b", "a b", "Ab", "aB", "ß", "zz", "README", "readme",
         "data.json", "x1", "x10", "x2",
         # decomposed (NFD) spellings: the tree must carry the name the directory has
         "e\u0301", "cafe\u0301.txt", "a\u0308", "caff.txt", "cafz.txt",
         # sort-sensitive against a rendering of the entry (quotes, blanks, punctuation)
         "it's", "a!", "a'b", "a&b", "__init__.py",
         # not valid UTF-8 on disk (latin-1 bytes), seen by Python as surrogate escapes
         "caf\udce9.txt", "\udcff"]


def draw_dir(rng, depth=0, budget=None):
    """-> dict name -> ('f', size, mtime) | ('d', {children})"""
    budget = budget if budget is not None else [rng.randint(1, 30)]
    n = rng.randint(0, 6 if depth else 8)
    names = rng.sample(NAMES, min(n, len(NAMES)))
    out = {}
    for name in names:
        if budget[0] <= 0:
            break
        budget[0] -= 1
        if depth < 4 and rng.random() < 0.35:
            out[name] = ("d", draw_dir(rng, depth + 1, budget) if rng.random() < 0.8 else {})
        else:
            size = rng.choice([0, 0, 1, 13, 100, 4096, 10000, rng.randint(0, 10000)])
            # a few shared whole seconds so that equal (name, size, second) with different
            # fractions occur in different folders
            mtime = 1_600_000_000 + rng.choice([0, 0, 1, 2, 86400, rng.randint(0, 10_000_000)]) \
                + rng.choice([0.0, 0.5, 0.25, 0.123])
            if rng.random() < 0.04:
                mtime = rng.choice([0.0, 0.5, 86400.0])  # the epoch itself / shortly after
            plain = [k for k, v in out.items() if v[0] == "f" and len(v) == 3]
            if plain and rng.random() < 0.08:
                # a second directory entry for an existing file (hard link): it is a file
                # of its own as far as a directory listing is concerned
                tgt = rng.choice(plain)
                out[name] = ("f", out[tgt][1], out[tgt][2], tgt)
                out[tgt] = out[tgt] + (None,)  # (marks the link target; not changed in place)
            else:
                out[name] = ("f", size, mtime)
    return out


def materialise(root: str, spec: dict):
    for name, ent in spec.items():
        # names may carry surrogate escapes (bytes that are not valid UTF-8 on disk)
        p = os.fsencode(os.path.join(root, name))
        if ent[0] == "d":
            os.mkdir(p)
            materialise(os.path.join(root, name), ent[1])
        elif len(ent) > 3 and ent[3] is not None:
            continue  # hard link: made below, when its target exists
        else:
            with open(p, "wb") as f:
                f.truncate(ent[1])
            os.utime(p, (ent[2], ent[2]))
    for name, ent in spec.items():
        if ent[0] == "f" and len(ent) > 3 and ent[3] is not None:
            os.link(os.fsencode(os.path.join(root, ent[3])), os.fsencode(os.path.join(root, name)))


class DirOrder:
    """Seam: `os.listdir` / `os.scandir` return a seeded permutation for every
    directory below `root` (the only ordering an OS is free to choose)."""

    def __init__(self, root, seed):
        self.root = os.path.realpath(root)
        self.seed = seed
        self.calls = 0
        self._listdir = os.listdir
        self._scandir = os.scandir

    def _mine(self, path) -> bool:
        try:
            p = os.path.realpath(os.fspath(path))
        except TypeError:
            return False
        return p == self.root or p.startswith(self.root + os.sep)

    def _perm(self, path, items, key):
        rel = os.path.relpath(os.path.realpath(os.fspath(path)), self.root)
        rng = R.stream(self.seed, "dir/" + os.fsencode(rel).hex())
        items = sorted(items, key=lambda x: os.fsencode(key(x)))
        rng.shuffle(items)
        self.calls += 1
        return items

    def __enter__(self):
        def listdir(path="."):
            res = self._listdir(path)
            if self._mine(path):
                return self._perm(path, res, key=lambda x: x)
            return res

        order = self

        class _Scan:
            def __init__(self, path):
                with order._scandir(path) as it:
                    ents = list(it)
                if order._mine(path):
                    ents = order._perm(path, ents, key=lambda e: e.name)
                self._it = iter(ents)

            def __iter__(self):
                return self._it

            def __next__(self):
                return next(self._it)

            def __enter__(self):
                return self

            def __exit__(self, *a):
                return False

            def close(self):
                pass

        def scandir(path="."):
            return _Scan(path)

        os.listdir = listdir
        os.scandir = scandir
        return self

    def __exit__(self, *a):
        os.listdir = self._listdir
        os.scandir = self._scandir
        return False


def describe(tree_or_node):
    """Nested description of a FileSystemTree read through the public API."""
    out = []
    for n in tree_or_node.children:
        d = n.data
        if d.is_dir:
            out.append(("d", d.name, describe(n)))
        else:
            out.append(("f", d.name, d.size, d.mdate))
    return out


def expected_unsorted(spec):
    out = []
    for name, ent in spec.items():
        if ent[0] == "d":
            out.append(("d", name, expected_unsorted(ent[1])))
        else:
            out.append(("f", name, ent[1], ent[2]))
    return out


def _norm(desc):
    """Order independent normal form (per-folder multiset)."""
    return sorted(
        (e[:2] + (tuple(_norm(e[2])),)) if e[0] == "d" else e for e in desc)


def _is_sorted_files_then_dirs(desc, keyfn) -> bool:
    files = [e for e in desc if e[0] == "f"]
    dirs = [e for e in desc if e[0] == "d"]
    if desc != files + dirs:
        return False
    if [e[1] for e in files] != sorted((e[1] for e in files), key=keyfn):
        return False
    if [e[1] for e in dirs] != sorted((e[1] for e in dirs), key=keyfn):
        return False
    return all(_is_sorted_files_then_dirs(e[2], keyfn) for e in dirs)


def fs_case(base_seed, index, tier, nt):
    """-> (violations [(check, detail, trigger)], stats)"""
    seed = R.run_seed(base_seed, "fs", "C19", index)
    rng = R.stream(seed, "dir")
    spec = draw_dir(rng)
    root = tempfile.mkdtemp(prefix="nutree-verif-fs-")
    viol = []
    stats = {"entries": 0, "listdir_calls": 0, "scans": 0, "max_depth": 0, "empty_dirs": 0}

    def count(s, depth=1):
        for ent in s.values():
            stats["entries"] += 1
            stats["max_depth"] = max(stats["max_depth"], depth)
            if ent[0] == "d":
                if not ent[1]:
                    stats["empty_dirs"] += 1
                count(ent[1], depth + 1)

    count(spec)
    try:
        scan_root = os.path.join(root, "scan")
        os.mkdir(scan_root)
        materialise(scan_root, spec)
        exp = expected_unsorted(spec)
        from nutree.fs import FileSystemTree, load_tree_from_fs

        sorted_results = []
        for sort in (True, False):
            for perm in range(4):
                with DirOrder(scan_root, R._h(seed, "perm", perm)) as order:
                    try:
                        tree = load_tree_from_fs(scan_root, sort=sort)
                    except Exception as e:  # noqa: BLE001
                        viol.append(("scan-raised", f"load_tree_from_fs(sort={sort}) raised "
                                                    f"{type(e).__name__}: {e}", f"scan/sort={sort}"))
                        continue
                stats["listdir_calls"] += order.calls
                stats["scans"] += 1
                if not isinstance(tree, FileSystemTree):
                    viol.append(("class", "result is not a FileSystemTree", "scan"))
                got = describe(tree)
                if _norm(got) != _norm(exp):
                    viol.append(("mirror", f"sort={sort} perm={perm}: tree {_norm(got)!r:.400} "
                                           f"does not mirror the directory {_norm(exp)!r:.400}",
                                 f"scan/sort={sort}"))
                    continue
                if sort:
                    sorted_results.append(got)
                    if not (_is_sorted_files_then_dirs(got, lambda s: s)
                            or _is_sorted_files_then_dirs(got, str.casefold)):
                        viol.append(("order", f"sort=True perm={perm}: a folder does not list "
                                              f"files (name-sorted) then folders (name-sorted): "
                                              f"{got!r:.400}", "scan/sort=True"))
                # save + load with the FileSystemTree mappers preserves all of it
                if perm == 0:
                    fp = S.SimStream()
                    try:
                        tree.save(fp)
                        loaded = FileSystemTree.load(S.SimStream_from(fp.getvalue()))
                    except Exception as e:  # noqa: BLE001
                        viol.append(("save-load-raised", f"{type(e).__name__}: {e}", "save-load"))
                        continue
                    if not isinstance(loaded, FileSystemTree):
                        viol.append(("class", "loaded tree is not a FileSystemTree", "save-load"))
                    if describe(loaded) != got:
                        viol.append(("save-load", f"saved+loaded tree {describe(loaded)!r:.300} "
                                                  f"differs from the scanned one {got!r:.300}",
                                     "save-load"))
                    # the same through a real file (text encoding of the target matters)
                    fpath = os.path.join(root, f"saved-{int(sort)}.nutree")
                    comp = rng.choice([False, False, True])
                    try:
                        tree.save(fpath, compression=comp)
                        loaded2 = FileSystemTree.load(fpath)
                        if describe(loaded2) != got:
                            viol.append(("save-load", "tree saved to a file and loaded differs "
                                                      "from the scanned one", "save-load/path"))
                    except Exception as e:  # noqa: BLE001
                        viol.append(("save-load-raised", f"path target: {type(e).__name__}: {e}",
                                     "save-load/path"))
        # a file changed in place (content appended, mtime set) must show in the next scan
        files = []

        def collect(sp, base):
            for name, ent in sp.items():
                if ent[0] == "f":
                    if len(ent) == 3:  # (hard-linked files share size and mtime: skipped)
                        files.append((base + [name], ent))
                else:
                    collect(ent[1], base + [name])

        collect(spec, [])
        if files:
            pathparts, ent = rng.choice(files)
            fp = os.fsencode(os.path.join(scan_root, *pathparts))
            new_size = ent[1] + rng.choice([1, 7, 4096])
            new_mtime = ent[2] + rng.choice([1.0, 3600.5])
            with open(fp, "ab") as f:
                f.truncate(new_size)
            os.utime(fp, (new_mtime, new_mtime))
            sp = spec
            for part in pathparts[:-1]:
                sp = sp[part][1]
            sp[pathparts[-1]] = ("f", new_size, new_mtime)
            try:
                tree = load_tree_from_fs(scan_root, sort=True)
                if _norm(describe(tree)) != _norm(expected_unsorted(spec)):
                    viol.append(("rescan", "a scan after a file was changed in place does not "
                                           "report the new size / modification time", "rescan"))
            except Exception as e:  # noqa: BLE001
                viol.append(("scan-raised", f"rescan raised {type(e).__name__}: {e}", "rescan"))
            stats["scans"] += 1
        if len(sorted_results) > 1 and any(r != sorted_results[0] for r in sorted_results[1:]):
            viol.append(("order-depends-on-enumeration",
                         "sort=True gives different trees for different directory enumeration "
                         "orders", "scan/sort=True"))
    finally:
        shutil.rmtree(root, ignore_errors=True)
    return viol, stats, spec, seed


def fs_block(start, stop, *, prop, tier, base_seed, avoid_patterns=(), known_patterns=(),
             engine="fs", cfg_overrides=None):
    from .batch import Agg
    from .world import import_nutree

    nt = import_nutree()
    agg = Agg()
    agg.extra = {"entries": 0, "listdir_permutations": 0, "scans": 0, "empty_dirs": 0,
                 "max_depth": 0}
    for index in range(start, stop):
        viol, stats, spec, seed = fs_case(base_seed, index, tier, nt)
        agg.runs += 1
        agg.steps += stats["scans"]
        agg.extra["entries"] += stats["entries"]
        agg.extra["listdir_permutations"] += stats["listdir_calls"]
        agg.extra["scans"] += stats["scans"]
        agg.extra["empty_dirs"] += stats["empty_dirs"]
        agg.extra["max_depth"] = max(agg.extra["max_depth"], stats["max_depth"])
        agg.fault_fired["F-dir-order"] = agg.fault_fired.get("F-dir-order", 0) + stats["listdir_calls"]
        if stats["entries"] >= 3:
            agg.run_digests_nontrivial.add(R.digest(json.dumps(spec, sort_keys=True)))
        for check, detail, trig in viol:
            agg.violations.append((index, seed, 0, "C19", check, trig, detail[:600],
                                   {"engine": "fs", "index": index}))
        if len(agg.samples) < 2:
            agg.samples.append({"index": index, "seed": seed, "directory": spec})
    return agg


def rebuild_record(seed, prop, tier, recipe, nt):
    index = recipe["index"] if isinstance(recipe, dict) else recipe[1]
    _v, _s, spec, rseed = fs_case(seed, index, tier, nt)
    return {"engine": "fs", "prop": prop, "base_seed": seed, "index": index, "tier": tier,
            "seed": rseed, "directory": spec}


def replay_record(record, prop, nt):
    viol, _stats, _spec, _seed = fs_case(record["base_seed"], record["index"],
                                         record.get("tier", "quick"), nt)
    return [("C19", c, t, d) for c, d, t in viol]
