"""Parallel, order-independent execution of blocks of seeded runs."""
from __future__ import annotations

import faulthandler
import multiprocessing
import os
import sys
import time
from concurrent.futures import ProcessPoolExecutor

STATE_CAP = 400_000


class Agg:
    """Aggregated outcome of a set of runs (mergeable, order independent)."""

    def __init__(self):
        self.runs = 0
        self.steps = 0
        self.ok_mut = 0
        self.outcomes = {}  # "kind/outcome" -> n
        self.transitions = set()  # "kind|outcome|trigger"
        self.refusals = {}  # exc class -> n
        self.fault_fired = {}
        self.probes = {}
        self.state_sample = set()
        self.run_digests_nontrivial = set()
        self.violations = []  # (index, seed, step, prop, check, trigger, detail)
        self.known_hits = {}
        self.other_prop = {}
        self.samples = []
        self.avoided_runs = 0
        self.avoided_ops = 0
        self.harness_errors = []
        self.extra = {}

    def merge(self, o: "Agg"):
        self.runs += o.runs
        self.steps += o.steps
        self.ok_mut += o.ok_mut
        for d, od in ((self.outcomes, o.outcomes), (self.refusals, o.refusals),
                      (self.fault_fired, o.fault_fired), (self.probes, o.probes),
                      (self.known_hits, o.known_hits), (self.other_prop, o.other_prop)):
            for k, v in od.items():
                d[k] = d.get(k, 0) + v
        self.transitions |= o.transitions
        if len(self.state_sample) < STATE_CAP:
            self.state_sample |= o.state_sample
        self.run_digests_nontrivial |= o.run_digests_nontrivial
        self.violations.extend(o.violations)
        self.samples.extend(o.samples)
        self.samples = sorted(self.samples, key=lambda s: s.get("index", 0))[:3]
        self.avoided_runs += o.avoided_runs
        self.avoided_ops += o.avoided_ops
        self.harness_errors.extend(o.harness_errors)
        for k, v in o.extra.items():
            if isinstance(v, (int, float)):
                self.extra[k] = self.extra.get(k, 0) + v
            elif isinstance(v, set):
                self.extra.setdefault(k, set()).update(v)
            elif isinstance(v, dict):
                d = self.extra.setdefault(k, {})
                for kk, vv in v.items():
                    d[kk] = d.get(kk, 0) + vv


def _worker(task):
    fn_mod, fn_name, kwargs, start, stop, wall = task
    faulthandler.enable()
    faulthandler.dump_traceback_later(wall, exit=True)
    try:
        mod = __import__(fn_mod, fromlist=[fn_name])
        fn = getattr(mod, fn_name)
        return fn(start, stop, **kwargs)
    finally:
        faulthandler.cancel_dump_traceback_later()


def run_blocks(fn_mod: str, fn_name: str, kwargs: dict, n_runs: int, *, workers=None,
               block=None, wall_per_block=600, deadline_s=None) -> Agg:
    """Call `fn(start, stop, **kwargs) -> Agg` for contiguous index blocks and
    merge the results sorted by block start (independent of worker count)."""
    workers = workers or int(os.environ.get("VERIF_WORKERS", "0")) or min(16, os.cpu_count() or 1)
    if block is None:
        block = max(1, min(500, (n_runs + workers * 4 - 1) // (workers * 4)))
    tasks = [(fn_mod, fn_name, kwargs, s, min(s + block, n_runs), wall_per_block)
             for s in range(0, n_runs, block)]
    agg = Agg()
    t0 = time.time()
    if workers == 1 or len(tasks) == 1:
        results = []
        for t in tasks:
            if deadline_s and time.time() - t0 > deadline_s:
                break
            results.append((t[3], _worker(t)))
    else:
        ctx = multiprocessing.get_context("fork")
        results = []
        with ProcessPoolExecutor(max_workers=workers, mp_context=ctx) as ex:
            futs = [(t[3], ex.submit(_worker, t)) for t in tasks]
            for start, f in futs:
                try:
                    results.append((start, f.result(timeout=wall_per_block + 60)))
                except Exception as e:  # noqa: BLE001
                    a = Agg()
                    a.harness_errors.append(f"block {start}: {type(e).__name__}: {e}")
                    results.append((start, a))
    for _start, a in sorted(results, key=lambda x: x[0]):
        agg.merge(a)
    return agg
