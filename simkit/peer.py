"""Reading side of C12 (and the load / from_dict routes of C03): nutree reads
documents produced by an independent encoder of the documented layout.

A case is a self-contained JSON object (it is its own replay file):
    {"engine": "peer", "case": "load" | "reject" | "dup-load" | "dup-from_dict" | "example",
     "cls": "Tree" | "TypedTree", "doc": <document>, "expect": <canonical tree>}
"""
from __future__ import annotations

import json

from . import rng as R
from . import store as S
from .data import dhash, decode_value, flavour_of
from .gen import draw_cfg, gen_op
from .history import new_world, run_step
from .world import Violation, real_children

KEY_MAPS = [None, {"data_id": "i", "str": "s"}, {"data_id": "i", "str": "s", "kind": "k",
                                                   "type": "t", "name": "n", "age": "a"},
            {"type": "ty", "v": "value"}]
VALUE_MAPS = [None, {"type": ["int", "tup", "person", "obj", "wrap", "udict", "float"]}]


# ------------------------------------------------------------------------------
# canonical description of a tree (JSON friendly, process independent)
# ------------------------------------------------------------------------------
def _dsym(obj):
    f = flavour_of(obj)
    if f == "s":
        return "s:" + obj
    if f == "i":
        return f"i:{obj}"
    if f == "x":
        return f"x:{obj}"
    if f == "t":
        return f"t:{obj[0]}"
    if f == "d":
        return f"d:{obj.name}:{obj.age}"
    if f == "o":
        return f"o:{obj.guid}:{obj.label}"
    if f == "f":
        return f"f:{obj.name}:{obj.is_dir}:{obj.size}:{obj.mdate}"
    if f == "u":
        return f"u:{obj['guid']}:{obj['u']}"
    return f"w:{obj._dict}"


def canon_of_model(mt):
    pos = {}
    out = []
    groups = {}

    def rec(m):
        res = []
        for c in m.children:
            pos[id(c)] = len(pos)
            groups.setdefault(c.did, []).append(pos[id(c)])
            custom = c.did != dhash(c.data)  # only custom ids are stored in a document
            res.append([_dsym(c.data), c.kind if mt.typed else None,
                        repr(c.did) if custom else None, rec(c)])
        return res

    tree = rec(mt.root)
    return {"tree": tree, "groups": sorted(groups.values())}


def canon_of_real(tree, typed, expect):
    """Canonical form of a loaded tree, shaped like `expect` (data_id only where
    the expectation states one)."""
    groups = {}
    n = [0]

    def rec(obj, exp_children):
        res = []
        kids = real_children(obj)
        for i, c in enumerate(kids):
            p = n[0]
            n[0] += 1
            groups.setdefault(c.data_id, []).append(p)
            e = exp_children[i] if i < len(exp_children) else None
            want_id = e is not None and e[2] is not None
            res.append([_dsym(c.data), getattr(c, "kind", None) if typed else None,
                        repr(c.data_id) if want_id else None,
                        rec(c, e[3] if e is not None else [])])
        return res

    t = rec(tree, expect["tree"])
    return {"tree": t, "groups": sorted(groups.values())}


# ------------------------------------------------------------------------------
# running one case
# ------------------------------------------------------------------------------
def _deser(nt, consume=False):
    cache = {}

    def deser_c(parent, data):
        try:
            return deser(parent, data)
        finally:
            data.clear()  # a mapper that uses up the entry dict (e.g. Cls(**data))

    def deser(parent, data):
        if "type" not in data:
            if "str" in data:
                return data["str"]
            if "data" in data:
                return data["data"]
            raise KeyError("no type")
        if data["type"] in ("person_doc", "dept_doc"):
            key = json.dumps({k: v for k, v in data.items() if k != "data_id"}, sort_keys=True)
            if key not in cache:
                cache[key] = DocObj(data["type"], data["name"], data.get("age"))
            return cache[key]
        if "x" in data:
            # the entry carries user keys that look like the standard short keys;
            # without a key map in the header they must arrive untouched
            for k in data["x"]:
                if data.get(k) != "keep":
                    raise KeyError(f"user key {k!r} of the entry was renamed or dropped")
        core = {k: v for k, v in data.items() if k in ("type", "v", "name", "age", "guid")}
        key = json.dumps(core, sort_keys=True)
        if key not in cache:
            cache[key] = decode_value(core, nt)
        return cache[key]

    return deser_c if consume else deser


class DocObj:
    """Person / Department of the user guide's examples."""

    def __init__(self, typ, name, age=None):
        self.typ = typ
        self.name = name
        self.age = age

    def __repr__(self):
        return f"{self.typ}<{self.name}>"


def _dsym_any(obj):
    if isinstance(obj, DocObj):
        return f"{obj.typ}:{obj.name}:{obj.age}"
    return _dsym(obj)


def run_case(case: dict, nt):
    """-> list of Violation"""
    kind = case["case"]
    cls = nt.TypedTree if case.get("cls") == "TypedTree" else nt.Tree
    typed = case.get("cls") == "TypedTree"
    trigger = "peer/" + kind + ("/typed" if typed else "")
    out = []
    if kind in ("load", "example"):
        text = json.dumps(case["doc"])
        fm = {}
        try:
            if case.get("no_mapper"):
                # a document of plain strings (what save() writes without a mapper)
                loaded = cls.load(S.SimStream_from(text), file_meta=fm)
            else:
                loaded = cls.load(S.SimStream_from(text),
                                  mapper=_deser(nt, consume=bool(case.get("consume"))),
                                  file_meta=fm)
        except Exception as e:  # noqa: BLE001
            return [Violation("C12", "reader-rejects-layout",
                              f"load() of a document that follows the documented layout raised "
                              f"{type(e).__name__}: {e}", trigger)]
        exp = case["expect"]
        got = canon_of_real_any(loaded, typed, exp)
        if got != exp:
            out.append(Violation("C12", "reader-result",
                                 f"loaded tree {json.dumps(got)[:400]} differs from the tree the "
                                 f"document describes {json.dumps(exp)[:400]}", trigger))
        for k, v in case.get("user_meta", {}).items():
            if fm.get(k) != v:
                out.append(Violation("C12", "reader-meta", f"user meta {k!r} not handed back",
                                     trigger))
        return out
    if kind == "reject":
        text = json.dumps(case["doc"])
        try:
            cls.load(S.SimStream_from(text), mapper=_deser(nt))
        except Exception:  # noqa: BLE001 - any rejection is fine
            return []
        return [Violation("C12", "reader-accepts-non-nutree",
                          f"load() accepted JSON without a valid nutree header "
                          f"({case.get('why')})", trigger + "/" + case.get("why", ""))]
    if kind == "dup-load":
        text = json.dumps(case["doc"])
        try:
            cls.load(S.SimStream_from(text), mapper=_deser(nt))
        except nt.UniqueConstraintError:
            return []
        except Exception as e:  # noqa: BLE001
            return [Violation("C03", "refusal-class",
                              f"load() of a document with duplicate siblings raised "
                              f"{type(e).__name__}, expected UniqueConstraintError", trigger)]
        return [Violation("C03", "missing-refusal",
                          "load() accepted a document that places two children with the same "
                          "data_id under one parent", trigger)]
    if kind == "dup-from_dict":
        try:
            nt.Tree.from_dict(case["doc"])
        except nt.UniqueConstraintError:
            return []
        except Exception as e:  # noqa: BLE001
            return [Violation("C03", "refusal-class",
                              f"from_dict() with duplicate siblings raised {type(e).__name__}, "
                              f"expected UniqueConstraintError", trigger)]
        return [Violation("C03", "missing-refusal",
                          "from_dict() accepted two sibling dicts with the same data/data_id",
                          trigger)]
    raise KeyError(kind)


def canon_of_real_any(tree, typed, expect):
    groups = {}
    n = [0]

    def rec(obj, exp_children):
        res = []
        for i, c in enumerate(real_children(obj)):
            p = n[0]
            n[0] += 1
            groups.setdefault(c.data_id, []).append(p)
            e = exp_children[i] if i < len(exp_children) else None
            want_id = e is not None and e[2] is not None
            res.append([_dsym_any(c.data), getattr(c, "kind", None) if typed else None,
                        repr(c.data_id) if want_id else None,
                        rec(c, e[3] if e is not None else [])])
        return res

    t = rec(tree, expect["tree"])
    return {"tree": t, "groups": sorted(groups.values())}


# ------------------------------------------------------------------------------
# literal examples of the user guide (ug_serialize.rst)
# ------------------------------------------------------------------------------
def doc_examples():
    plain = {
        "meta": {"$generator": "nutree/0.5.1", "$format_version": "1.0", "foo": "bar"},
        "nodes": [[0, "A"], [1, "a1"], [2, "a11"], [2, "a12"], [1, "a2"], [0, "B"], [6, 3],
                  [6, "b1"], [8, "b11"]],
    }
    plain_expect = {"tree": [
        ["s:A", None, None, [["s:a1", None, None, [["s:a11", None, None, []],
                                                  ["s:a12", None, None, []]]],
                             ["s:a2", None, None, []]]],
        ["s:B", None, None, [["s:a11", None, None, []],
                             ["s:b1", None, None, [["s:b11", None, None, []]]]]]],
        "groups": [[0], [1], [2, 6], [3], [4], [5], [7], [8]]}
    people = [("dept_doc", "Development", None), ("person_doc", "Alice", 23),
              ("person_doc", "Bob", 32), ("person_doc", "Charleen", 43),
              ("dept_doc", "Marketing", None), None, ("person_doc", "Dave", 54)]
    parents = [0, 1, 1, 1, 0, 5, 5]

    def obj_doc(key_map, value_map):
        nodes = []
        for p, who in zip(parents, people):
            if who is None:
                nodes.append([p, 4])
                continue
            typ, name, age = who
            d = {"type": typ, "name": name}
            if age is not None:
                d["age"] = age
            if value_map:
                d["type"] = value_map["type"].index(d["type"])
            if key_map:
                d = {key_map.get(k, k): v for k, v in d.items()}
            nodes.append([p, d])
        meta = {"$generator": "nutree/0.7.0", "$format_version": "1.0"}
        if key_map:
            meta["$key_map"] = key_map
        if value_map:
            meta["$value_map"] = value_map
        return {"meta": meta, "nodes": nodes}

    def o(typ, name, age, kids=()):
        return [f"{typ}:{name}:{age}", None, None, list(kids)]

    obj_expect = {"tree": [
        o("dept_doc", "Development", None, [o("person_doc", "Alice", 23), o("person_doc", "Bob", 32),
                                            o("person_doc", "Charleen", 43)]),
        o("dept_doc", "Marketing", None, [o("person_doc", "Charleen", 43),
                                          o("person_doc", "Dave", 54)])],
        "groups": [[0], [1], [2], [3, 5], [4], [6]]}
    km = {"type": "t", "name": "n", "age": "a", "guid": "g"}
    vm = {"type": ["dept_doc", "person_doc"]}
    cases = [{"engine": "peer", "case": "example", "cls": "Tree", "doc": plain,
              "expect": plain_expect, "user_meta": {"foo": "bar"}, "name": "plain-strings"}]
    # plain strings with custom data_ids (incl. the empty string and falsy ids), as the
    # library writes them without a mapper: {"s": <str>, "i": <data_id>} (typed: "k")
    sid_nodes = [[0, {"s": "A", "i": "id-A"}], [1, {"s": "", "i": 5}], [1, "a2"],
                 [0, {"s": "B", "i": 0}], [4, {"s": "", "i": ""}]]
    sid_expect = {"tree": [
        ["s:A", None, "'id-A'", [["s:", None, "5", []], ["s:a2", None, None, []]]],
        ["s:B", None, "0", [["s:", None, "''", []]]]],
        "groups": [[0], [1], [2], [3], [4]]}
    cases.append({"engine": "peer", "case": "example", "cls": "Tree", "no_mapper": True,
                  "doc": {"meta": {"$generator": "nutree/0.9.0", "$format_version": "1.0",
                                   "$key_map": {"data_id": "i", "str": "s"}},
                          "nodes": sid_nodes},
                  "expect": sid_expect, "name": "strings-with-ids-no-mapper"})
    typed_nodes = [[0, {"s": "A", "i": "id-A", "k": 0}], [1, {"s": "", "i": 5, "k": 1}],
                   [1, {"s": "a2", "k": 1}], [0, {"s": "B", "i": 0, "k": 0}]]
    typed_expect = {"tree": [
        ["s:A", "x", "'id-A'", [["s:", "", "5", []], ["s:a2", "", None, []]]],
        ["s:B", "x", "0", []]],
        "groups": [[0], [1], [2], [3]]}
    cases.append({"engine": "peer", "case": "example", "cls": "TypedTree", "no_mapper": True,
                  "doc": {"meta": {"$generator": "nutree/0.9.0", "$format_version": "1.0",
                                   "$key_map": {"data_id": "i", "str": "s", "kind": "k"},
                                   "$value_map": {"kind": ["x", ""]}},
                          "nodes": typed_nodes},
                  "expect": typed_expect, "name": "typed-strings-with-ids-no-mapper"})
    for name, k, v in (("objects-verbose", None, None), ("objects-key_map", km, None),
                       ("objects-key_map-value_map", km, vm)):
        cases.append({"engine": "peer", "case": "example", "cls": "Tree", "doc": obj_doc(k, v),
                      "expect": obj_expect, "name": name})
    return cases


def reject_cases():
    good = {"meta": {"$generator": "nutree/1.0", "$format_version": "1.0"}, "nodes": [[0, "A"]]}
    out = []
    for why, doc in (
        ("no-meta", {"nodes": good["nodes"]}),
        ("no-nodes", {"meta": good["meta"]}),
        ("no-generator", {"meta": {"$format_version": "1.0"}, "nodes": good["nodes"]}),
        ("other-generator", {"meta": {"$generator": "foo/1.0", "$format_version": "1.0"},
                             "nodes": good["nodes"]}),
        ("list-instead-of-dict", [[0, "A"]]),
        ("plain-dict-list", [{"data": "A"}]),
    ):
        out.append({"engine": "peer", "case": "reject", "cls": "Tree", "doc": doc, "why": why})
    return out


# ------------------------------------------------------------------------------
# seeded generation: states from short histories, encoded by the reference encoder
# ------------------------------------------------------------------------------
def build_state(seed, tier, nt, typed=None):
    cfg = draw_cfg(R.stream(seed, "cfg"), "C12", tier, {
        "p_fault": 0.0, "p_refuse": 0.0, "p_steer": 0.0})
    if typed is not None:
        cfg["slots"] = ["typed" if typed else "plain"]
    else:
        cfg["slots"] = [cfg["slots"][0] if cfg["slots"][0] in ("plain", "typed") else "plain"]
    # FileSystemEntry field names (n/s/m/d) collide with the short keys of the key maps
    cfg["flavours"] = [f for f in cfg["flavours"] if f != "f"] or ["s", "i", "w"]
    cfg["bulk"] = None  # documents of ordinary size
    cfg["length"] = min(cfg["length"], 25)
    cfg["weights"] = {"add": 30, "move": 5, "remove": 3, "set_data": 6, "sort": 2}
    w = new_world(cfg, nt)
    rng = R.stream(seed, "ops")
    frng = R.stream(seed, "faults")
    for opid in range(cfg["length"]):
        op = gen_op(rng, frng, cfg, w, opid)
        op.pop("fault", None)
        r = run_step(w, op, index_every=False)
        if r.violations:
            return None, None
    return w, w.slots[0].model


def _has_equal_identity_conflict(mt):
    from .ops_store import _has_equal_valued_distinct_identity_objects

    return _has_equal_valued_distinct_identity_objects(mt)


def seeded_cases(base_seed, index, tier, nt):
    seed = R.run_seed(base_seed, "peer", "C12", index)
    rng = R.stream(seed, "peer")
    w, mt = build_state(seed, tier, nt)
    cases = []
    if mt is None:
        return cases
    if not _has_equal_identity_conflict(mt):
        expect = canon_of_model(mt)
        for _ in range(2):
            km = rng.choice(KEY_MAPS)
            vm = rng.choice(VALUE_MAPS)
            um = rng.choice([None, {"foo": "bar", "n": index}])
            doc = S.encode_model(mt, key_map=km, value_map=vm, user_meta=um,
                                 version=rng.choice(["0.5.1", "0.9.0", "1.2.3"]))
            if km is None:
                # user keys named like the standard short keys, no key map declared
                for ent in doc["nodes"]:
                    if isinstance(ent[1], dict) and "type" in ent[1] and rng.random() < 0.5:
                        ks = rng.sample(["s", "i", "k"], rng.randint(1, 3))
                        for k in ks:
                            ent[1][k] = "keep"
                        ent[1]["x"] = ks
            cases.append({"engine": "peer", "case": "load",
                          "cls": "TypedTree" if mt.typed else "Tree", "doc": doc,
                          "expect": expect, "user_meta": um or {},
                          "consume": rng.random() < 0.4})
    # C03 routes: a document / dict list with duplicate siblings must be refused
    labels = ["a", "b", "c"]
    dup = rng.choice(labels)
    depth_parent = rng.choice([0, 1])
    nodes = [[0, "P"], [depth_parent, dup], [depth_parent, rng.choice(labels)],
             [depth_parent, dup]]
    r3 = rng.random()
    if r3 < 0.35:
        nodes[3] = [depth_parent, 2]  # reference to the sibling itself
    elif r3 < 0.6:
        # both duplicates are references to an occurrence below ANOTHER parent
        nodes = [[0, "A"], [1, dup], [0, "B"], [3, 2], [3, rng.choice(labels)], [3, 2]]
    cases.append({"engine": "peer", "case": "dup-load", "cls": "Tree",
                  "doc": {"meta": {"$generator": "nutree/0.9.0", "$format_version": "1.0"},
                          "nodes": nodes}})
    kids = [{"data": dup}, {"data": rng.choice(labels)}, {"data": dup}]
    if rng.random() < 0.5:
        kids = [{"data": "x", "data_id": "id1"}, {"data": "y", "data_id": "id1"}]
    d = kids if depth_parent == 0 else [{"data": "P", "children": kids}]
    cases.append({"engine": "peer", "case": "dup-from_dict", "cls": "Tree", "doc": d})
    return cases


def peer_block(start, stop, *, prop, tier, base_seed, avoid_patterns=(), known_patterns=(),
               engine="peer", cfg_overrides=None):
    from .batch import Agg
    from .world import import_nutree

    nt = import_nutree()
    agg = Agg()
    agg.extra = {"peer_cases": 0, "peer_cases_by_kind": {}, "documents_loaded": 0}
    fixed = doc_examples() + reject_cases() if start == 0 else []
    for index in range(start, stop):
        cases = seeded_cases(base_seed, index, tier, nt)
        if index == start and fixed:
            cases = fixed + cases
        agg.runs += 1
        for ci, case in enumerate(cases):
            agg.extra["peer_cases"] += 1
            k = case["case"]
            agg.extra["peer_cases_by_kind"][k] = agg.extra["peer_cases_by_kind"].get(k, 0) + 1
            for v in run_case(case, nt):
                if v.prop == prop:
                    agg.violations.append((index, 0, ci, v.prop, v.check, v.trigger,
                                           v.detail[:600], case))
                else:
                    agg.other_prop[v.prop] = agg.other_prop.get(v.prop, 0) + 1
            if k in ("load", "example"):
                agg.extra["documents_loaded"] += 1
                agg.run_digests_nontrivial.add(R.digest(json.dumps(case["doc"], sort_keys=True)))
            if len(agg.samples) < 2 and k == "load":
                agg.samples.append({"index": index, "case": k, "cls": case["cls"],
                                    "doc": case["doc"]})
    return agg


def rebuild_record(seed, prop, tier, recipe, nt):
    """recipe = ('peer', index, case): the case is its own replay record."""
    case = dict(recipe[2])
    case["prop"] = prop
    case["seed"] = recipe[1]
    return case
