"""HistorySim: execute one operation record against real trees and models and
evaluate every oracle; run whole histories; replay records."""
from __future__ import annotations

import traceback

from . import ops as O
from .observe import adopt, check_index, check_removed, compare_slot
from .world import (
    HarnessError,
    InjectedFault,
    Violation,
    World,
    check_sibling_unique,
    check_structure,
    real_snapshot,
)


class StepResult:
    __slots__ = ("outcome", "violations", "exc", "trigger", "why", "fault_fired", "counts",
                 "result")

    def __init__(self):
        self.outcome = ""
        self.violations: list[Violation] = []
        self.exc = None
        self.trigger = ""
        self.why = ""
        self.fault_fired = False
        self.counts = {}
        self.result = None


def _live_slots(w: World):
    return [i for i, s in enumerate(w.slots) if s is not None and s.real is not None]


def _snap_all(w: World):
    out = {}
    for i in _live_slots(w):
        try:
            out[i] = real_snapshot(w.slots[i].real)
        except (HarnessError, KeyboardInterrupt, SystemExit, MemoryError):
            raise
        except BaseException:  # noqa: BLE001 - an unreadable tree has no snapshot
            out[i] = None
    return out


def run_step(w: World, op: dict, *, probes=None, index_every=True) -> StepResult:
    res = StepResult()
    try:
        plan = O.make_plan(w, op)
    except (KeyError, IndexError, AttributeError, TypeError) as e:
        raise HarnessError(f"planning {op}: {type(e).__name__}: {e}\n{traceback.format_exc()}")
    res.trigger = plan.trigger
    res.why = plan.why
    if plan.contract in (O.SKIP, O.EXCLUDED):
        res.outcome = plan.contract.lower()
        return res

    pre = _snap_all(w)
    fault = op.get("fault")
    w.fault.arm([fault["cb"], fault["at"]] if fault else None)
    exc = None
    result = None
    try:
        result = plan.call()
    except InjectedFault as e:
        exc = e
    except (HarnessError, KeyboardInterrupt, SystemExit, MemoryError):
        raise
    except RecursionError as e:
        exc = e
    except BaseException as e:  # noqa: BLE001 - every library error is data here
        exc = e
    finally:
        w.fault.disarm()
    res.exc = exc
    res.result = result
    res.fault_fired = w.fault.fired
    res.counts = dict(w.fault.counts)
    viol = res.violations

    def guard(fn, *a, **k):
        try:
            fn(*a, **k)
            return True
        except Violation as v:
            if not v.trigger:
                v.trigger = plan.trigger
            viol.append(v)
            for v2 in getattr(v, "also", ()) or ():
                viol.append(v2)
            return False

    live = _live_slots(w)
    exc_name = type(exc).__name__ if exc is not None else None

    # 1. structural invariants of every live tree (C01, C03) - model free
    struct_ok = True
    for i in live:
        t = w.slots[i].real
        struct_ok &= guard(check_structure, t, f"slot{i}")
        guard(check_sibling_unique, t, f"slot{i}")

    post = _snap_all(w)
    unchanged = all(pre.get(i) == post.get(i) and post.get(i) is not None for i in live)

    # 2. contract
    if w.fault.fired:
        # C13 part 2: an exception escaped from a user callback
        res.outcome = "fault"
        if plan.readonly or plan.fault_bound == "unchanged":
            if not unchanged:
                viol.append(Violation(
                    "C13", "callback-fault",
                    f"{op['k']} changed the tree although callback {fault['cb']}#{fault['at']} raised",
                    plan.trigger + f"/fault-{fault['cb']}"))
        elif struct_ok:
            for i in plan.slots:
                def _ad(i=i):
                    removed = adopt(w, i, plan.fault_bound, "C13",
                                    plan.trigger + f"/fault-{fault['cb']}")
                    w.mark_removed(i, removed)
                guard(_ad)
    elif plan.contract in (O.REFUSE_OR_OK, O.ANYRESULT) and exc is not None:
        res.outcome = "refused"
        if not unchanged:
            viol.append(Violation(
                "C13", "refused-op-changed-state",
                f"{op['k']} raised {exc_name} ({plan.trigger}) but the tree changed",
                plan.trigger))
            if plan.owner == "C07":
                # C07: "the source ... is left unchanged" - also by a copy that fails
                viol.append(Violation(
                    "C07", "failed-copy-changed-source",
                    f"{op['k']} raised {exc_name} and the source branch / tree changed",
                    plan.trigger))
    elif plan.contract == O.ANYRESULT:
        # accepted: the outcome is not specified, the tree must stay well-formed
        res.outcome = "ok"
        if struct_ok:
            for i in plan.slots:
                def _ad(i=i):
                    removed = adopt(w, i, "free", plan.owner, plan.trigger)
                    w.mark_removed(i, removed)
                guard(_ad)
    elif plan.contract == O.NOCHANGE:
        res.outcome = "refused" if exc is not None else "ok"
        if not unchanged:
            viol.append(Violation(
                "C13" if exc is not None else plan.owner,
                "refused-op-changed-state" if exc is not None else "noop-changed-state",
                f"{op['k']} with {plan.why} "
                f"{'raised ' + exc_name if exc is not None else 'returned'} but the tree changed",
                plan.trigger))
    elif plan.contract == O.REFUSE:
        if exc is None:
            res.outcome = "not-refused"
            owner = "C03" if plan.refuse == O.UNIQUE else plan.owner
            viol.append(Violation(
                owner, "missing-refusal",
                f"{op['k']} with {plan.why} was accepted (state "
                f"{'unchanged' if unchanged else 'changed'})",
                plan.trigger))
        else:
            res.outcome = "refused"
            if plan.refuse is not None and exc_name not in plan.refuse:
                owner = "C03" if plan.refuse == O.UNIQUE else plan.owner
                viol.append(Violation(
                    owner, "refusal-class",
                    f"{op['k']} with {plan.why} raised {exc_name}, expected {plan.refuse}",
                    plan.trigger))
            if not unchanged:
                viol.append(Violation(
                    "C13", "refused-op-changed-state",
                    f"{op['k']} refused with {exc_name} ({plan.why}) but the tree changed",
                    plan.trigger))
    else:  # OK
        if exc is not None:
            res.outcome = "raised"
            viol.append(Violation(
                plan.owner, "valid-op-raised",
                f"{op['k']} is documented-valid but raised {exc_name}: {exc}",
                plan.trigger))
            if not unchanged:
                viol.append(Violation(
                    "C13", "failed-op-changed-state",
                    f"{op['k']} raised {exc_name} and the tree changed",
                    plan.trigger))
        else:
            res.outcome = "ok"
            removed = None
            if plan.apply is not None:
                removed = plan.apply()
            if plan.readonly and not unchanged:
                viol.append(Violation(
                    plan.owner, "readonly-op-changed-state",
                    f"{op['k']} is read-only but the tree changed", plan.trigger))
            if removed:
                for i in plan.slots[:1]:
                    w.mark_removed(i, removed)
            ok = True
            for i in live:
                if w.slots[i] is None:
                    continue

                def _cmp(i=i):
                    try:
                        compare_slot(w, i, plan.owner, plan.trigger)
                    except Violation:
                        raise
                    except Exception:  # noqa: BLE001 - unreadable tree: C01 reported it
                        if struct_ok:
                            raise

                ok &= guard(_cmp)
            if ok and struct_ok and plan.after is not None:
                guard(plan.after, result)

    # C02 owns the data_id rule (explicit id, else id callback, else hash)
    for v in list(viol):
        if v.check == "data_id" and v.prop != "C02":
            viol.append(Violation("C02", "data_id-rule", v.detail, v.trigger))
        # where an inserted copy lands (before=...) is C04's "insert at a position" too
        if v.prop == "C07" and v.check in ("shape", "data") and op["k"] == "add":
            viol.append(Violation("C04", "insert-position", v.detail, v.trigger))
    # caller-owned dicts handed to nutree must stay untouched (no aliasing)
    for name, (live, pristine) in w.shared_dicts.items():
        if live != pristine:
            viol.append(Violation("C04", "caller-dict-mutated",
                                  f"the dict passed to update_meta() ({name}) was modified by a "
                                  f"later operation on a node", plan.trigger))
            w.shared_dicts[name] = (dict(pristine), pristine)
    # 3. removed nodes (C01) and index (C02)
    had = bool(viol)
    for i in _live_slots(w):
        if struct_ok and not had:
            guard(check_removed, w, i)
        if index_every:
            pd, pdata = (probes(w, i) if probes else ((), ()))

            def _idx(i=i, pd=pd, pdata=pdata):
                try:
                    check_index(w, i, pd, pdata)
                except Violation:
                    raise
                except Exception:  # noqa: BLE001 - an unreadable tree is C01's business
                    if struct_ok and not had:
                        raise

            guard(_idx)
    # C13: after an escaped callback fault the tree must still satisfy C01-C03
    if w.fault.fired:
        for v in list(viol):
            if v.prop in ("C01", "C02", "C03"):
                viol.append(Violation(
                    "C13", "callback-fault-broke-" + v.prop,
                    f"after callback {fault['cb']}#{fault['at']} raised in {op['k']}: {v.detail}",
                    plan.trigger + f"/fault-{fault['cb']}"))
    return res


# ------------------------------------------------------------------------------
# whole runs
# ------------------------------------------------------------------------------
def new_world(cfg: dict, nt=None) -> World:
    w = World(nt)
    for fl in cfg["slots"]:
        w.add_slot(fl)
    return w


def default_probes(cfg):
    dids = list(cfg.get("ids", []))
    keys = list(cfg.get("probe_keys", []))

    def probes(w: World, i: int):
        return dids, [w.pool.get(k) for k in keys]

    return probes


class RunLog:
    def __init__(self):
        self.steps = []  # (opid, kind, outcome, trigger)
        self.violations = []  # (step_index, Violation)
        self.fault_counts = {}

    def digest_items(self):
        return tuple(self.steps)


def replay(record: dict, *, nt=None, stop_at_first=True, collect_counts=False):
    """Execute a record {cfg, ops}.  -> (RunLog, World)"""
    cfg = record["cfg"]
    w = new_world(cfg, nt)
    try:
        return _replay_body(record, w, cfg, stop_at_first, collect_counts)
    finally:
        from .ops_store import cleanup_world

        cleanup_world(w)


def _replay_body(record, w, cfg, stop_at_first, collect_counts):
    probes = default_probes(cfg)
    log = RunLog()
    for idx, op in enumerate(record["ops"]):
        r = run_step(w, op, probes=probes)
        log.steps.append((op["id"], op["k"], r.outcome, r.trigger,
                          type(r.exc).__name__ if r.exc is not None else None))
        if collect_counts and r.counts:
            log.fault_counts[op["id"]] = r.counts
        if r.violations:
            for v in r.violations:
                log.violations.append((idx, v))
            if stop_at_first:
                break
    return log, w
