"""One integer decides everything: named, independent PRNG sub-streams."""
from __future__ import annotations

import hashlib
import random


def _h(*parts) -> int:
    s = "/".join(str(p) for p in parts)
    return int.from_bytes(hashlib.sha256(s.encode()).digest()[:8], "big")


def run_seed(base_seed: int, engine: str, prop: str, index: int) -> int:
    """Seed of run `index` of `engine` for property `prop` under VERIF_SEED."""
    return _h(base_seed, engine, prop, index)


def stream(seed: int, name: str) -> random.Random:
    """Independent sub-stream; adding draws to one never shifts another."""
    return random.Random(_h(seed, name))


def digest(obj) -> str:
    return hashlib.sha256(repr(obj).encode()).hexdigest()[:16]
