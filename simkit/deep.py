"""DeepSim: the level-order family of traversals on branches deeper than the
interpreter's recursion limit (extra block of C06).

The history engine keeps its trees at most ~150 deep because its observers - and
nutree's own pre-/post-order iterators - recurse. The four level-order style
iterators (LEVEL_ORDER, LEVEL_ORDER_RTL, ZIGZAG, ZIGZAG_RTL), `visit(LEVEL_ORDER)`
and UNORDERED are documented (and written) as non-recursive, so "every node of the
branch exactly once, in the documented order" has to hold for them at any depth.
Here a seeded spine of up to ~1 700 levels with side twigs is built through the
public API (`add` only, nothing recursive), and every oracle below is iterative.

One case is a pure function of (VERIF_SEED, index): the replay file holds just that.
"""
from __future__ import annotations

import json
import sys

from . import rng as R

METHODS = ("LEVEL_ORDER", "LEVEL_ORDER_RTL", "ZIGZAG", "ZIGZAG_RTL")


def draw_shape(rng):
    """-> (depth, twigs): spine d0..d<depth-1>; twigs = {level: [(side, name, sub)]}
    side 'L'/'R' = before / after the spine child of that level, sub = length of the
    twig's own chain below it."""
    limit = sys.getrecursionlimit()
    r = rng.random()
    if r < 0.7:
        depth = limit + rng.randint(1, 700)
    elif r < 0.85:
        depth = rng.randint(limit - 3, limit + 3)
    else:
        depth = rng.randint(150, limit - 4)
    twigs = {}
    levels = sorted(set([rng.randrange(depth) for _ in range(rng.randint(0, 12))]
                        + [rng.randrange(max(1, depth - 40), depth) for _ in range(rng.randint(0, 4))]))
    for lv in levels:
        tw = []
        for j in range(rng.randint(1, 3)):
            tw.append((rng.choice("LR"), f"t{lv}.{j}", rng.choice([0, 0, 1, 3])))
        twigs[lv] = tw
    return depth, twigs


class Model:
    """name -> ordered child names (names are unique in the whole tree)."""

    def __init__(self):
        self.kids = {"": []}
        self.parent = {}

    def add(self, parent, name, first=False):
        self.kids[name] = []
        self.parent[name] = parent
        if first:
            self.kids[parent].insert(0, name)
        else:
            self.kids[parent].append(name)

    def level_order(self, start, method, add_self):
        revert = method in ("LEVEL_ORDER_RTL", "ZIGZAG_RTL")
        toggle = method in ("ZIGZAG", "ZIGZAG_RTL")
        out = [start] if add_self else []
        level = list(self.kids[start])
        while level:
            out.extend(reversed(level) if revert else level)
            if toggle:
                revert = not revert
            nxt = []
            for n in level:
                nxt.extend(self.kids[n])
            level = nxt
        return out

    def level_visit(self, start, add_self, skip=None, stop=None):
        """Callback sequence of visit(LEVEL_ORDER): `skip` prunes below that node,
        `stop` ends the traversal after that node was called."""
        out = []
        if add_self:
            out.append(start)
            if start == stop:
                return out
            if start == skip:
                return out
        level = list(self.kids[start])
        while level:
            nxt = []
            for n in level:
                out.append(n)
                if n == stop:
                    return out
                if n != skip:
                    nxt.extend(self.kids[n])
            level = nxt
        return out


def build(nt, depth, twigs):
    tree = nt.Tree("deep")
    m = Model()
    by_name = {}
    parent_node, parent_name = tree, ""
    for lv in range(depth):
        name = f"d{lv}"
        tw = twigs.get(lv, ())
        for side, tname, sub in tw:
            if side == "L":
                _twig(parent_node, parent_name, tname, sub, m, by_name)
        node = parent_node.add(name)
        m.add(parent_name, name)
        by_name[name] = node
        for side, tname, sub in tw:
            if side == "R":
                _twig(parent_node, parent_name, tname, sub, m, by_name)
        parent_node, parent_name = node, name
    return tree, m, by_name


def _twig(parent_node, parent_name, tname, sub, m, by_name):
    n = parent_node.add(tname)
    m.add(parent_name, tname)
    by_name[tname] = n
    pn, pname = n, tname
    for k in range(sub):
        cname = f"{tname}/{k}"
        c = pn.add(cname)
        m.add(pname, cname)
        by_name[cname] = c
        pn, pname = c, cname


def _first_diff(got, want):
    for i, (a, b) in enumerate(zip(got, want)):
        if a != b:
            return f"first difference at position {i}: got {a!r}, expected {b!r}"
    return f"length {len(got)} vs expected {len(want)}" + (
        f"; first missing {want[len(got)]!r}" if len(got) < len(want) else
        f"; first surplus {got[len(want)]!r}")


def deep_case(base_seed, index, tier, nt):
    seed = R.run_seed(base_seed, "deep", "C06", index)
    rng = R.stream(seed, "def")
    depth, twigs = draw_shape(rng)
    viol = []
    stats = {"depth": depth, "nodes": 0, "probes": 0, "beyond_limit": depth > sys.getrecursionlimit()}
    IM = nt.IterMethod
    try:
        tree, m, by_name = build(nt, depth, twigs)
    except RecursionError as e:  # add() is not recursive on the unchanged tree
        viol.append(("valid-op-raised", f"building a chain of {depth} levels with add(): "
                                        f"{type(e).__name__}", "deep/build"))
        return viol, stats, {"depth": depth, "twigs": twigs}, seed
    stats["nodes"] = len(m.kids) - 1

    # start points: the tree, a few spine nodes (top, around the limit, near the bottom), a twig
    starts = [("", False)]
    for lv in sorted({0, rng.randrange(depth), max(0, depth - 1 - rng.randint(0, 30)),
                      max(0, depth - sys.getrecursionlimit() - rng.randint(0, 5))}):
        starts.append((f"d{lv}", rng.random() < 0.5))
    tnames = [t[1] for tw in twigs.values() for t in tw]
    if tnames:
        starts.append((rng.choice(tnames), rng.random() < 0.5))

    def names(it):
        return [n.name for n in it]

    for start, add_self in starts:
        for meth in METHODS:
            stats["probes"] += 1
            trig = f"deep/iter/{meth}/{'tree' if not start else 'node'}" + \
                   ("/add_self" if add_self else "")
            want = m.level_order(start, meth, add_self)
            try:
                if start:
                    got = names(by_name[start].iterator(getattr(IM, meth), add_self=add_self))
                else:
                    got = names(tree.iterator(getattr(IM, meth)))
            except Exception as e:  # noqa: BLE001
                viol.append(("valid-op-raised", f"{type(e).__name__}: {e} (depth {depth}, "
                                                f"start {start or '<tree>'})", trig))
                continue
            if got != want:
                viol.append(("order", f"depth {depth}, start {start or '<tree>'}: "
                                      + _first_diff(got, want), trig))
        # visit(LEVEL_ORDER): full, with a pruned node, with a stop
        sub = m.level_order(start, "LEVEL_ORDER", False)
        for mode in ("all", "skip", "stop"):
            if mode != "all" and not sub:
                continue
            stats["probes"] += 1
            pick = None if mode == "all" else sub[rng.randrange(len(sub))]
            if mode != "all" and rng.random() < 0.5:
                pick = sub[max(0, len(sub) - 1 - rng.randint(0, min(40, len(sub) - 1)))]
            want = m.level_visit(start, add_self, skip=pick if mode == "skip" else None,
                                 stop=pick if mode == "stop" else None)
            seen = []
            spelling = rng.randrange(2)

            def cb(node, memo, _m=mode, _p=pick, _s=spelling):
                seen.append(node.name)
                if node.name == _p:
                    if _m == "skip":
                        if _s:
                            raise nt.SkipBranch
                        return nt.SkipBranch
                    if _s:
                        raise nt.StopTraversal("v")
                    return False

            trig = f"deep/visit/LEVEL_ORDER/{mode}/{'tree' if not start else 'node'}" + \
                   ("/add_self" if add_self and start else "")
            try:
                if start:
                    by_name[start].visit(cb, add_self=add_self, method=IM.LEVEL_ORDER)
                else:
                    tree.visit(cb, method=IM.LEVEL_ORDER)
            except Exception as e:  # noqa: BLE001
                viol.append(("valid-op-raised", f"{type(e).__name__}: {e} (depth {depth})", trig))
                continue
            if seen != want:
                viol.append(("visit-order", f"depth {depth}, start {start or '<tree>'}, "
                                            f"{mode} at {pick!r}: " + _first_diff(seen, want), trig))
    # UNORDERED: every node once
    stats["probes"] += 1
    got = sorted(names(tree.iterator(IM.UNORDERED)))
    want = sorted(k for k in m.kids if k)
    if got != want:
        viol.append(("order", f"UNORDERED at depth {depth}: " + _first_diff(got, want),
                     "deep/iter/UNORDERED/tree"))
    if len(tree) != len(want):
        viol.append(("count", f"len(tree)={len(tree)} expected {len(want)}", "deep/len"))
    return viol, stats, {"depth": depth, "twigs": {str(k): v for k, v in twigs.items()}}, seed


def deep_block(start, stop, *, prop, tier, base_seed, avoid_patterns=(), known_patterns=(),
               engine="deep", cfg_overrides=None):
    from .batch import Agg
    from .world import import_nutree

    nt = import_nutree()
    agg = Agg()
    agg.extra = {"nodes": 0, "probes": 0, "beyond_recursion_limit": 0, "max_depth": {}}
    for index in range(start, stop):
        viol, stats, desc, seed = deep_case(base_seed, index, tier, nt)
        agg.runs += 1
        agg.steps += stats["probes"]
        agg.extra["nodes"] += stats["nodes"]
        agg.extra["probes"] += stats["probes"]
        agg.extra["beyond_recursion_limit"] += 1 if stats["beyond_limit"] else 0
        b = str(stats["depth"] // 250 * 250)
        agg.extra["max_depth"][b] = agg.extra["max_depth"].get(b, 0) + 1
        agg.probes["deep_beyond_limit"] = agg.probes.get("deep_beyond_limit", 0) + \
            (1 if stats["beyond_limit"] else 0)
        if stats["nodes"] >= 3:
            agg.run_digests_nontrivial.add(R.digest(json.dumps(desc, sort_keys=True)))
        for check, detail, trig in viol:
            agg.violations.append((index, seed, 0, "C06", check, trig, detail[:600],
                                   {"engine": "deep", "index": index}))
        if len(agg.samples) < 2:
            agg.samples.append({"index": index, "seed": seed, "depth": stats["depth"],
                                "nodes": stats["nodes"], "probes": stats["probes"]})
    return agg


def rebuild_record(seed, prop, tier, recipe, nt):
    index = recipe["index"] if isinstance(recipe, dict) else recipe[1]
    _v, stats, desc, rseed = deep_case(seed, index, tier, nt)
    return {"engine": "deep", "prop": prop, "base_seed": seed, "index": index, "tier": tier,
            "seed": rseed, "shape": desc, "depth": stats["depth"]}


def replay_record(record, prop, nt):
    viol, _stats, _desc, _seed = deep_case(record["base_seed"], record["index"],
                                           record.get("tier", "quick"), nt)
    return [("C06", c, t, d) for c, d, t in viol]
