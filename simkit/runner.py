"""Run seeded HistorySim runs (single and in batches)."""
from __future__ import annotations

from . import rng as R
from .gen import draw_cfg, gen_op
from .history import default_probes, new_world, run_step
from .ops import make_plan
from .ops_store import cleanup_world
from .model import canon
from .world import HarnessError, Violation


class RunResult:
    def __init__(self, index, seed):
        self.index = index
        self.seed = seed
        self.record = None
        self.steps = []  # [opid, kind, outcome, trigger, exc]
        self.violations = []  # (step idx, prop, check, trigger, detail)
        self.states = set()
        self.fault_fired = {}
        self.n_ok_mut = 0
        self.harness_error = None

    @property
    def digest(self):
        return R.digest((self.steps, [(i, p, c, t) for i, p, c, t, _ in self.violations]))


MUTATING = {"bulk", "add", "move", "remove", "remove_children", "clear", "del", "sort",
            "set_data", "filter", "restart", "copy", "copy_to"}


def history_run(base_seed: int, prop: str, index: int, tier: str, *, nt=None,
                cfg_overrides=None, engine="history", avoid=()) -> RunResult:
    """One seeded run.  `avoid`: compiled regexes on plan triggers (open known
    findings); ~80 % of the runs do not execute operations of those classes."""
    seed = R.run_seed(base_seed, engine, prop, index)
    res = RunResult(index, seed)
    cfg = draw_cfg(R.stream(seed, "cfg"), prop, tier, cfg_overrides)
    ops_rng = R.stream(seed, "ops")
    fault_rng = R.stream(seed, "faults")
    avoiding = bool(avoid) and R.stream(seed, "avoid").random() < 0.8
    res.avoiding = avoiding
    res.avoided_ops = 0
    w = new_world(cfg, nt)
    try:
        return _history_run_body(res, w, cfg, ops_rng, fault_rng, avoiding, avoid, seed, prop,
                                 index, base_seed, engine)
    finally:
        cleanup_world(w)  # scratch files of restart steps, also when the harness fails


def _history_run_body(res, w, cfg, ops_rng, fault_rng, avoiding, avoid, seed, prop, index,
                      base_seed, engine):
    probes = default_probes(cfg)
    ops = []
    res.record = {"seed": seed, "prop": prop, "index": index, "base_seed": base_seed,
                  "engine": engine, "cfg": cfg, "ops": ops}
    for opid in range(cfg["length"]):
        op = gen_op(ops_rng, fault_rng, cfg, w, opid)
        if avoiding:
            pl = make_plan(w, op)
            # a refused operation cannot manifest an open finding: only avoid
            # operations that would be executed with effect
            if pl.contract == "OK" and any(rx.search(pl.trigger) for rx in avoid):
                res.avoided_ops += 1
                continue
        ops.append(op)
        r = run_step(w, op, probes=probes)
        res.steps.append([op["id"], op["k"], r.outcome, r.trigger,
                          type(r.exc).__name__ if r.exc is not None else None])
        if r.fault_fired:
            cb = op["fault"]["cb"]
            res.fault_fired[cb] = res.fault_fired.get(cb, 0) + 1
        if r.outcome == "ok" and op["k"] in MUTATING:
            res.n_ok_mut += 1
        if r.violations:
            for v in r.violations:
                res.violations.append((len(ops) - 1, v.prop, v.check, v.trigger, v.detail))
            # a pure lookup-index deviation leaves tree and model in step: other
            # properties' checks keep exploring the history (the C02 check stops here)
            if prop == "C02" or any(not (v.prop == "C02" and v.check == "index")
                                    for v in r.violations):
                break
            if sum(1 for x in res.violations if x[1] == "C02") > 50:
                break
        for s in w.slots:
            if s is not None:
                res.states.add(R.digest(canon(s.model.root, w.sym)))
    return res


# ------------------------------------------------------------------------------
# block function for batch.run_blocks
# ------------------------------------------------------------------------------
PROBE_RULES = {
    # name -> (substring of trigger, outcome or None)
    "move_into_descendant_refused": ("into-own-branch", "refused"),
    "move_same_parent": ("move/same-parent", "ok"),
    "move_duplicate_refused": ("move/duplicate-sibling", "refused"),
    "add_before_not_child_refused": ("before-not-a-child", "refused"),
    "add_collision_refused": ("/collision", "refused"),
    "add_node_sibling_of_target": ("sibling-of-target", "ok"),
    "add_tree": ("/tree", "ok"),
    "add_deep_node": ("/node-deep", "ok"),
    "remove_keep_children": ("remove/keep_children", "ok"),
    "remove_keep_children_collision_refused": ("keep_children/duplicate-sibling", "refused"),
    "remove_with_clones_group": ("with_clones/group", "ok"),
    "remove_with_clones_nested": ("/nested", "ok"),
    "set_data_clone_single": ("set_data/clone", "ok"),
    "set_data_with_clones": ("/with_clones", "ok"),
    "set_data_merge_groups": ("/merge", "ok"),
    "set_data_collision_refused": ("set_data", "refused"),
    "set_data_no_decision_refused": ("no-decision", "refused"),
    "del_ambiguous_refused": ("del/ambiguous", "refused"),
    "filter_select": (("filter", "SEL"), "ok"),
    "filter_skip_self": (("filter", "SKself"), "ok"),
    "filter_stop": (("filter", "STOP"), "ok"),
    "sort_deep": ("sort/deep", "ok"),
    "restart_file": ("restart/file", "ok"),
    "restart_dict": ("restart/dict", "ok"),
    "restart_clone_below_sibling": ("clone-below-sibling", "ok"),
    "copy_tree": ("copy/tree", "ok"),
    "copy_filtered": ("copy/filtered", "ok"),
    "copy_to": ("copy_to", "ok"),
    "callback_fault_fired": (None, "fault"),
    "bulk_boundary": ("bulk/", "ok"),
    "visit_skip": (("visit/", "SKIP"), "ok"),
    "visit_stop": (("visit/", "STOP"), "ok"),
    "iter_zigzag": ("iter/zigzag", "ok"),
    "iter_random": ("iter/random", "ok"),
    "read_save_stream": ("read/save_stream", "ok"),
}


def history_block(start, stop, *, prop, tier, base_seed, avoid_patterns=(),
                  known_patterns=(), engine="history", cfg_overrides=None):
    import re

    from .batch import Agg
    from .world import import_nutree

    nt = import_nutree()
    avoid = [re.compile(p) for p in avoid_patterns]
    known = [re.compile(p) for p in known_patterns]
    agg = Agg()
    for index in range(start, stop):
        try:
            r = history_run(base_seed, prop, index, tier, nt=nt, avoid=avoid,
                            engine=engine, cfg_overrides=cfg_overrides)
        except HarnessError as e:
            agg.harness_errors.append(f"run {index}: {e}")
            continue
        agg.runs += 1
        agg.steps += len(r.steps)
        agg.ok_mut += r.n_ok_mut
        if r.avoiding:
            agg.avoided_runs += 1
            agg.avoided_ops += r.avoided_ops
        probe_fired = False
        for opid, kind, outcome, trigger, exc in r.steps:
            k = f"{kind}/{outcome}"
            agg.outcomes[k] = agg.outcomes.get(k, 0) + 1
            agg.transitions.add(f"{kind}|{outcome}|{trigger}")
            if outcome == "refused" and exc:
                agg.refusals[exc] = agg.refusals.get(exc, 0) + 1
            for name, (sub, oc) in PROBE_RULES.items():
                subs = () if sub is None else ((sub,) if isinstance(sub, str) else sub)
                if all(x in trigger for x in subs) and (oc is None or oc == outcome):
                    agg.probes[name] = agg.probes.get(name, 0) + 1
                    probe_fired = True
        for cb, n in r.fault_fired.items():
            agg.fault_fired["F-cb-raise/" + cb] = agg.fault_fired.get("F-cb-raise/" + cb, 0) + n
        n_ref = sum(1 for s in r.steps if s[2] == "refused")
        if n_ref:
            agg.fault_fired["F-refuse"] = agg.fault_fired.get("F-refuse", 0) + n_ref
        sample = 1 if tier == "quick" else 16
        for d in r.states:
            if int(d, 16) % sample == 0:
                agg.state_sample.add(d)
        if r.n_ok_mut >= 3 and probe_fired:
            agg.run_digests_nontrivial.add(r.digest)
        for (step, p, c, t, d) in r.violations:
            sig = f"{p}/{c}/{t}"
            if any(rx.search(sig) for rx in known):
                agg.known_hits[sig] = agg.known_hits.get(sig, 0) + 1
            elif p != prop:
                agg.other_prop[p] = agg.other_prop.get(p, 0) + 1
            else:
                agg.violations.append((index, r.seed, step, p, c, t, d[:600]))
        if len(agg.samples) < 3:
            agg.samples.append({
                "index": index, "seed": r.seed, "slots": r.record["cfg"]["slots"],
                "ops": [{"op": op, "outcome": st[2], "trigger": st[3]}
                        for op, st in zip(r.record["ops"], r.steps)][:40],
            })
    return agg
