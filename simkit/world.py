"""World of a HistorySim run: real nutree trees bound to reference models.

All observation of the real trees goes through the public API and compares
nodes by *identity* only (`Node.__eq__` compares data, so `==`/`in` on nodes are
never used here).
"""
from __future__ import annotations

import importlib
import os
import sys

from .data import Pool, decode_value, encode_value, guid_hook
from .model import MNode, MTree


class InjectedFault(Exception):
    """Raised by simulator-owned callbacks; unknown to nutree."""


class HarnessError(Exception):
    """A defect of the harness itself (never reported as VIOLATION)."""


def import_nutree():
    """Import nutree from VERIF_REPO (default /repo) - always the working tree."""
    repo = os.environ.get("VERIF_REPO", "/repo")
    if sys.path[0] != repo:
        sys.path.insert(0, repo)
    for name in list(sys.modules):
        if name == "nutree" or name.startswith("nutree."):
            mod = sys.modules[name]
            f = getattr(mod, "__file__", "") or ""
            if not f.startswith(repo + os.sep):
                del sys.modules[name]
    nt = importlib.import_module("nutree")
    f = nt.__file__ or ""
    if not f.startswith(repo + os.sep):
        raise HarnessError(f"nutree imported from {f}, expected below {repo}")
    return nt


class FaultPlan:
    """k-th invocation of a wrapped user callback raises InjectedFault."""

    def __init__(self):
        self.active = False
        self.target: tuple[str, int] | None = None
        self.counts: dict[str, int] = {}
        self.fired = False

    def arm(self, target):
        self.active = True
        self.target = tuple(target) if target else None
        self.counts = {}
        self.fired = False

    def disarm(self):
        self.active = False

    def tick(self, cb: str):
        if not self.active:
            return
        c = self.counts.get(cb, 0) + 1
        self.counts[cb] = c
        if self.target is not None and self.target == (cb, c):
            self.fired = True
            raise InjectedFault(f"{cb}#{c}")


class Violation(Exception):
    def __init__(self, prop: str, check: str, detail: str, trigger: str = ""):
        super().__init__(f"{prop}/{check}: {detail}")
        self.prop = prop
        self.check = check
        self.detail = detail
        self.trigger = trigger

    @property
    def signature(self) -> str:
        return f"{self.prop}/{self.check}/{self.trigger}"


class Slot:
    def __init__(self, real, model: MTree):
        self.real = real
        self.model = model


FLAVOURS = ("plain", "hook", "typed", "fwd", "sub", "tsub", "fs", "thook")


class World:
    def __init__(self, nt=None):
        self.nt = nt or import_nutree()
        self.pool = Pool(self.nt)
        self.slots: list[Slot | None] = []
        self.real_of: dict[str, object] = {}
        self.uid_of: dict[int, str] = {}
        self.nid_of: dict[str, int] = {}
        self.keep: list[object] = []  # every real node ever seen stays alive
        self.removed: dict[str, tuple[object, int, int]] = {}  # uid -> (node, node_id, slot)
        self.fault = FaultPlan()
        self._classes = {}
        self.deser_cache = {}
        self.shared_dicts = {}  # name -> (dict handed to nutree, pristine copy)
        self.tree_seq = 0

    # --- tree construction ----------------------------------------------------
    def _hook(self, tree, data):
        self.fault.tick("hook")
        return guid_hook(tree, data)

    def tree_class(self, flavour: str):
        """Class used to build (and to load) trees of this flavour."""
        nt = self.nt
        if flavour in ("plain", "hook", "fwd"):
            return nt.Tree
        if flavour in ("typed", "thook"):
            return nt.TypedTree
        if flavour == "fs":
            return importlib.import_module("nutree.fs").FileSystemTree
        if flavour in self._classes:
            return self._classes[flavour]
        world = self

        def ser(cls, node, data):
            world.fault.tick("mapper")
            if not isinstance(node.data, str):
                data.update(encode_value(node.data))
            return data

        def deser(cls, parent, data):
            world.fault.tick("mapper")
            if "str" in data and "type" not in data:
                return data["str"]
            core = {k: v for k, v in data.items()
                    if k in ("type", "v", "name", "age", "guid")}
            key = repr(sorted(core.items(), key=repr))
            cache = world.deser_cache
            if key not in cache:  # equal stored values give one object per load
                cache[key] = decode_value(core, nt)
            return cache[key]

        base = nt.Tree if flavour == "sub" else nt.TypedTree
        key_map = dict(base.DEFAULT_KEY_MAP)
        key_map.update({"type": "t", "name": "n", "age": "a"})
        cls = type(
            "Sim" + base.__name__,
            (base,),
            {
                "DEFAULT_KEY_MAP": key_map,
                "DEFAULT_VALUE_MAP": {"type": ["int", "tup", "person", "obj", "wrap", "udict"]},
                "serialize_mapper": classmethod(ser),
                "deserialize_mapper": classmethod(deser),
            },
        )
        self._classes[flavour] = cls
        return cls

    def new_tree(self, flavour: str):
        self.tree_seq += 1
        name = f"t{self.tree_seq}"
        cls = self.tree_class(flavour)
        if flavour in ("hook", "thook"):
            return cls(name, calc_data_id=self._hook)
        if flavour == "fwd":
            return cls(name, forward_attrs=True)
        return cls(name)

    def add_slot(self, flavour: str) -> int:
        self.slots.append(Slot(self.new_tree(flavour), MTree(flavour)))
        return len(self.slots) - 1

    # --- binding ----------------------------------------------------------------
    def bind(self, uid: str, real) -> None:
        self.real_of[uid] = real
        self.uid_of[id(real)] = uid
        self.keep.append(real)
        try:
            self.nid_of[uid] = real.node_id
        except Exception:
            pass

    def unbind_slot(self, slot_idx: int) -> None:
        """Forget every binding of a slot (the tree is dropped / replaced)."""
        slot = self.slots[slot_idx]
        if slot is None:
            return
        for m in slot.model.root.iter_pre():
            r = self.real_of.pop(m.uid, None)
            if r is not None:
                self.uid_of.pop(id(r), None)
            self.nid_of.pop(m.uid, None)
        for uid in [u for u, (_n, _i, s) in self.removed.items() if s == slot_idx]:
            del self.removed[uid]

    def mark_removed(self, slot_idx: int, mnodes) -> None:
        for m in mnodes:
            r = self.real_of.pop(m.uid, None)
            if r is not None:
                self.uid_of.pop(id(r), None)
                self.removed[m.uid] = (r, self.nid_of.get(m.uid), slot_idx)

    def real(self, ref: str):
        """Resolve 'T<slot>' or a node uid to the real object (or None)."""
        if ref.startswith("T"):
            s = self.slot(ref)
            return None if s is None else s.real
        return self.real_of.get(ref)

    def slot(self, ref: str) -> Slot | None:
        i = int(ref[1:])
        if i >= len(self.slots):
            return None
        return self.slots[i]

    def slot_index_of_uid(self, uid: str):
        for i, s in enumerate(self.slots):
            if s is not None and s.model.find_uid(uid) is not None:
                return i
        return None

    def mnode(self, ref: str):
        """Resolve 'T<slot>' -> (slot_idx, root) or uid -> (slot_idx, MNode)."""
        if ref.startswith("T"):
            i = int(ref[1:])
            if i >= len(self.slots) or self.slots[i] is None:
                return None, None
            return i, self.slots[i].model.root
        for i, s in enumerate(self.slots):
            if s is None:
                continue
            m = s.model.find_uid(ref)
            if m is not None:
                return i, m
        return None, None

    # --- symbolic names (process independent) ----------------------------------
    def dkey(self, obj) -> str:
        k = self.pool.key_of(obj)
        return k if k is not None else f"?{type(obj).__name__}"

    def did_sym(self, m: MNode) -> str:
        if isinstance(m.did, str):
            return f"X({m.did})" if m.explicit else f"G({m.did})"
        if m.explicit:
            return f"X({m.did})"
        return f"H({self.dkey(m.data)})"

    def sym(self, m: MNode):
        return (self.dkey(m.data), self.did_sym(m))

    def label(self, m: MNode) -> str:
        s = f"{m.uid}:{self.dkey(m.data)}"
        if m.explicit:
            s += f"@{m.did}"
        if m.kind is not None:
            s += f"/{m.kind}"
        return s


# ------------------------------------------------------------------------------
# Observers (public API, identity based)
# ------------------------------------------------------------------------------
MAX_NODES = 5000


def real_children(obj):
    """`children` of a Tree or Node (public API)."""
    return list(obj.children)


def real_snapshot(tree):
    """Process-local canonical observable state: identity of nodes and data,
    data_id, kind, meta, parent, order.  Used for before/after comparison."""

    def rec(node_or_tree, parent_id, budget):
        out = []
        for c in real_children(node_or_tree):
            budget[0] -= 1
            if budget[0] < 0:
                raise Violation("C01", "structure", "more than MAX_NODES reachable (cycle?)")
            meta = c.meta
            out.append(
                (
                    id(c),
                    id(c.data),
                    c.data_id,
                    getattr(c, "kind", None),
                    None if not meta else tuple(sorted(meta.items())),
                    id(c.parent) if c.parent is not None else None,
                    id(c.tree),
                    tuple(rec(c, id(c), budget)),
                )
            )
        return out

    return (tuple(rec(tree, None, [MAX_NODES])), tree.count, len(tree))


def real_shape(tree, world: World, max_nodes=200):
    """Human readable nested shape of a real tree (labels only; for reports)."""
    budget = [max_nodes]

    def lab(n):
        uid = world.uid_of.get(id(n), "?")
        try:
            d = world.dkey(n.data)
        except Exception:
            d = "?"
        k = getattr(n, "kind", None)
        return f"{uid}:{d}" + (f"/{k}" if k is not None else "")

    def rec(obj):
        out = []
        for c in real_children(obj):
            budget[0] -= 1
            if budget[0] < 0:
                out.append("...")
                break
            out.append((lab(c), rec(c)))
        return tuple(out)

    try:
        return rec(tree)
    except Exception as e:  # pragma: no cover - diagnostics only
        return f"<unreadable: {type(e).__name__}: {e}>"


def model_shape(world: World, mtree: MTree):
    def rec(m):
        return tuple((world.label(c).split("@")[0], rec(c)) for c in m.children)

    return rec(mtree.root)


def check_structure(tree, what="tree"):
    """C01 predicates on one real tree (raises Violation)."""
    seen: dict[int, object] = {}
    order = []

    def rec(parent_obj, parent_node, depth):
        if depth > 600:
            raise Violation("C01", "structure", f"{what}: depth > 600 (cycle?)")
        kids = real_children(parent_obj)
        ids = set()
        for c in kids:
            if id(c) in ids:
                raise Violation(
                    "C01", "structure", f"{what}: node appears twice in one child list"
                )
            ids.add(id(c))
        for c in kids:
            if id(c) in seen:
                raise Violation(
                    "C01", "structure", f"{what}: node reachable twice (two parents/cycle)"
                )
            seen[id(c)] = c
            order.append(c)
            if len(seen) > MAX_NODES:
                raise Violation("C01", "structure", f"{what}: > MAX_NODES reachable")
            if c.tree is not tree:
                raise Violation("C01", "structure", f"{what}: node.tree is not the owner")
            p = c.parent
            if parent_node is None:
                if p is not None:
                    raise Violation(
                        "C01", "structure", f"{what}: top-level node reports a parent"
                    )
            elif p is not parent_node:
                raise Violation(
                    "C01", "structure",
                    f"{what}: node.parent is not the node it was reached from",
                )
            rec(c, c, depth + 1)

    try:
        rec(tree, None, 0)
    except Violation:
        raise
    except RecursionError:
        raise Violation("C01", "structure", f"{what}: unbounded depth (cycle?)") from None
    except Exception as e:  # noqa: BLE001
        raise Violation(
            "C01", "structure",
            f"{what}: reading a reachable node raised {type(e).__name__} (stale node in tree)",
        ) from None
    n = len(order)
    if tree.count != n or len(tree) != n:
        raise Violation(
            "C01", "count",
            f"{what}: count={tree.count} len={len(tree)} but {n} nodes reachable",
        )
    nids = {}
    for c in order:
        nid = c.node_id
        if nid in nids:
            raise Violation("C01", "node_id", f"{what}: duplicate node_id")
        nids[nid] = c
        if tree.find_first(node_id=nid) is not c:
            raise Violation(
                "C01", "node_id", f"{what}: find_first(node_id=) does not return the node"
            )
    return order


def check_sibling_unique(tree, what="tree"):
    """C03 invariant: no parent (root included) has two children with one data_id."""

    def rec(obj, depth):
        if depth > 600:
            return
        seen = set()
        kids = real_children(obj)
        for c in kids:
            d = c.data_id
            if d in seen:
                raise Violation(
                    "C03", "sibling-unique",
                    f"{what}: two children with the same data_id under one parent",
                )
            seen.add(d)
        for c in kids:
            rec(c, depth + 1)

    try:
        rec(tree, 0)
    except Violation:
        raise
    except Exception:  # noqa: BLE001 - unreadable trees are C01's business
        return
