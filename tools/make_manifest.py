#!/usr/bin/env python3
"""Write MANIFEST.json from checks.SPECS (single source of truth)."""
import json
import os
import sys

HERE = os.path.dirname(os.path.dirname(os.path.abspath(__file__)))
sys.path.insert(0, HERE)
from checks import MANIFEST_TEXT, NOT_APPLICABLE, SPECS  # noqa: E402

checks = []
for pid in sorted(SPECS):
    spec = SPECS[pid]
    txt = MANIFEST_TEXT[pid]
    checks.append({
        "property_id": pid,
        "quick_cmd": f"./check {pid} --tier quick",
        "thorough_cmd": f"./check {pid} --tier thorough",
        "evidence_file": f"evidence/{pid}.json",
        "replay_cmd_template": f"./check {pid} --replay {{path}}",
        "engine": txt["engine"],
        "level_claimed": {"category": spec["level"], "text": txt["level_text"],
                          "design_ref": txt["design_ref"]},
        "level_note": txt["level_note"],
        "technique": txt["technique"],
    })

manifest = {
    "version": 1,
    "setup_cmd": "/venv/bin/python -m compileall -q simkit checks >/dev/null && /venv/bin/python tools/selftest.py --quick",
    "hooks": {
        "guard": "MAR10_NUTREE_VERIF",
        "enable": "no hooks are needed: every seam is reachable from outside (callback arguments, "
                  "lock attribute swap on the tree instance, module attribute rebinding, os wrappers); "
                  "checks import nutree from /repo's working tree via sys.path",
        "baseline_off_cmd": "cd /repo && /venv/bin/python -m pytest -ra -q -p no:cacheprovider --timeout=900",
        "source_commits": [],
        "add_only": True,
    },
    "engines": [
        {"name": "HistorySim", "path": "simkit/history.py",
         "serves_properties": ["C01", "C02", "C03", "C04", "C06", "C07", "C08", "C13"],
         "kind_free_text": "seeded operation/fault histories against real trees and an executable "
                           "reference model, oracles after every step, ddmin minimiser, replay files"},
        {"name": "StoreSim", "path": "simkit/store.py", "serves_properties": ["C05", "C12", "C14"],
         "kind_free_text": "persistence boundary as a restart fault inside histories; independent "
                           "reference codec of the documented file layout as in-process fake peer"},
        {"name": "SchedSim", "path": "simkit/sched.py", "serves_properties": ["C18"],
         "kind_free_text": "real threads run one at a time under a seeded baton scheduler; tree lock "
                           "replaced by a simulated RLock; sys.settrace line events as pre-emption points"},
        {"name": "FsSim", "path": "simkit/fsim.py", "serves_properties": ["C19"],
         "kind_free_text": "real scratch directory, directory enumeration order and stat values decided "
                           "by the simulator"},
        {"name": "PrngSim", "path": "simkit/prng.py", "serves_properties": ["C20"],
         "kind_free_text": "nutree's random module replaced by a seeded, boundary-biased SimRandom"},
    ],
    "checks": checks,
    "not_applicable": NOT_APPLICABLE,
    "notes": "See DESIGN.md. Exit codes of ./check: 0 held, 1 VIOLATION, 2 HARNESS-ERROR (no verdict). "
             "VERIF_SEED selects the base seed; VERIF_WORKERS the process count (default 16).",
}
with open(os.path.join(HERE, "MANIFEST.json"), "w") as f:
    json.dump(manifest, f, indent=1)
    f.write("\n")
print("wrote MANIFEST.json with", len(checks), "checks,", len(NOT_APPLICABLE), "not applicable")
