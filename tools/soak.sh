#!/bin/sh
# no-false-alarm sweep: every check's quick tier under many base seeds on the current tree
# usage: tools/soak.sh FIRST LAST [tier]
first=${1:-1}; last=${2:-20}; tier=${3:-quick}
cd "$(dirname "$0")/.." || exit 2
bad=0
for s in $(seq "$first" "$last"); do
  for p in C01 C02 C03 C04 C05 C06 C07 C08 C12 C13 C14 C18 C19 C20; do
    out=$(VERIF_SEED=$s timeout 3600 ./check $p --tier "$tier" 2>&1); rc=$?
    if [ $rc -ne 0 ]; then bad=$((bad+1)); echo "seed=$s $p rc=$rc"; echo "$out" | grep -E "^(violation|VIOLATION|HARNESS|  signature)" | head -8; fi
  done
  echo "seed $s done (bad so far: $bad)"
done
echo "SOAK DONE bad=$bad"
