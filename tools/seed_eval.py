#!/usr/bin/env python3
"""Evaluate seeded defects: apply patch to /repo, confirm (tests green, demo
fails), run the checks, undo.  usage: seed_eval.py DIR [PROP...] [--runs N]"""
import json
import os
import subprocess
import sys
import time

VERIF = os.path.dirname(os.path.dirname(os.path.abspath(__file__)))


def sh(cmd, **kw):
    return subprocess.run(cmd, shell=True, capture_output=True, text=True, **kw)


def main():
    d = os.path.abspath(sys.argv[1])
    props = [a for a in sys.argv[2:] if a.startswith("C")]
    if "--scratch" in sys.argv:
        return scratch(d, props)
    tier = "quick"
    patch = os.path.join(d, "patch.diff")
    demo = os.path.join(d, "demo.py")
    st = sh("git -C /repo status --porcelain")
    if st.stdout.strip():
        print("REPO DIRTY - abort")
        return 2
    out = {"dir": d}
    r = sh(f"cd /repo && PYTHONPATH=/repo /venv/bin/python {demo}")
    out["demo_clean_rc"] = r.returncode
    r = sh(f"git -C /repo apply {patch}")
    if r.returncode != 0:
        print("PATCH DOES NOT APPLY:", r.stderr[:300])
        return 2
    try:
        r = sh(f"{VERIF}/tools/run_tests.sh")
        out["tests_ok"] = r.returncode == 0
        out["tests"] = r.stdout.strip().splitlines()[:3]
        r = sh(f"cd /repo && PYTHONPATH=/repo /venv/bin/python {demo}")
        out["demo_patched_rc"] = r.returncode
        out["demo_out"] = (r.stdout + r.stderr)[-300:]
        out["checks"] = {}
        for p in props:
            t0 = time.time()
            r = sh(f"cd {VERIF} && ./check {p} --tier {tier}", timeout=1800)
            lines = [ln for ln in r.stdout.splitlines() if ln.startswith(("VIOLATION", "violation:"))]
            out["checks"][p] = {"rc": r.returncode, "wall": round(time.time() - t0, 1),
                                "lines": [ln[:300] for ln in lines[:2]]}
    finally:
        sh("git -C /repo checkout -- .")
    print(json.dumps(out, indent=1))
    return 0


def scratch(d, props):
    """Same protocol on a scratch worktree of /repo's HEAD (for use while a long
    background run reads /repo): nothing under /repo is touched."""
    wt = "/tmp/seedkeep_wt"
    patch = os.path.join(d, "patch.diff")
    demo = os.path.join(d, "demo.py")
    sh(f"git -C /repo worktree remove --force {wt}; rm -rf {wt}")
    if sh(f"git -C /repo worktree add --detach {wt} HEAD").returncode != 0:
        print("cannot create worktree")
        return 2
    out = {"dir": d, "scratch_worktree": True}
    try:
        r = sh(f"cd {wt} && PYTHONPATH={wt} /venv/bin/python {demo}")
        out["demo_clean_rc"] = r.returncode
        r = sh(f"git -C {wt} apply {patch}")
        if r.returncode != 0:
            print("PATCH DOES NOT APPLY:", r.stderr[:300])
            return 2
        r = sh(f"{VERIF}/tools/run_tests.sh {wt}")
        out["tests_ok"] = r.returncode == 0
        out["tests"] = r.stdout.strip().splitlines()[:3]
        r = sh(f"cd {wt} && PYTHONPATH={wt} /venv/bin/python {demo}")
        out["demo_patched_rc"] = r.returncode
        out["demo_out"] = (r.stdout + r.stderr)[-300:]
        out["checks"] = {}
        for p in props:
            t0 = time.time()
            r = sh(f"cd {VERIF} && VERIF_REPO={wt} VERIF_EVIDENCE_DIR=/tmp/seedkeep_ev "
                   f"./check {p} --tier quick", timeout=1800)
            lines = [ln for ln in r.stdout.splitlines() if ln.startswith(("VIOLATION", "violation:"))]
            out["checks"][p] = {"rc": r.returncode, "wall": round(time.time() - t0, 1),
                                "lines": [ln[:300] for ln in lines[:2]]}
    finally:
        sh(f"git -C /repo worktree remove --force {wt}; rm -rf {wt} /tmp/seedkeep_ev")
    print(json.dumps(out, indent=1))
    return 0


sys.exit(main())
