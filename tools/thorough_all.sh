#!/bin/sh
# run every check's thorough tier once (on the current tree); print one line per check
cd "$(dirname "$0")/.." || exit 2
for p in C18 C19 C20 C03 C04 C05 C06 C07 C08 C12 C13 C14 C01 C02; do
  start=$(date +%s)
  out=$(VERIF_SEED=${VERIF_SEED:-0} timeout 7200 ./check $p --tier thorough 2>&1); rc=$?
  end=$(date +%s)
  echo "$p rc=$rc wall=$((end-start))s"
  echo "$out" | grep -E "^(violation|VIOLATION|HARNESS|  signature|C[0-9]+ thorough)" | cut -c1-400 | head -12
done
echo THOROUGH DONE
