#!/usr/bin/env python3
"""Confirm a seeded defect and keep it: seed_keep.py SRC_DIR NAME PROP [OTHER_PROPS...]"""
import json
import os
import shutil
import subprocess
import sys

VERIF = os.path.dirname(os.path.dirname(os.path.abspath(__file__)))
argv = [a for a in sys.argv[1:] if a != "--scratch"]
scratch = "--scratch" in sys.argv
src, name, prop = argv[0], argv[1], argv[2]
others = argv[3:]
r = subprocess.run([os.path.join(VERIF, "tools/seed_eval.py"), src, prop] + others
                   + (["--scratch"] if scratch else []), capture_output=True, text=True)
try:
    o = json.loads(r.stdout)
except ValueError:
    print("EVAL FAILED", r.stdout[:500], r.stderr[:300])
    sys.exit(2)
ok = o["tests_ok"] and o["demo_clean_rc"] == 0 and o["demo_patched_rc"] == 1
dst = os.path.join(VERIF, "seeded", name)
os.makedirs(dst, exist_ok=True)
same = os.path.realpath(src) == os.path.realpath(dst)
old_meta = {}
if same and os.path.exists(os.path.join(dst, "meta.json")):
    old_meta = json.load(open(os.path.join(dst, "meta.json")))
for f in ("patch.diff", "demo.py", "notes.txt"):
    if not same and os.path.exists(os.path.join(src, f)):
        shutil.copy(os.path.join(src, f), os.path.join(dst, f))
notes = open(os.path.join(src, "notes.txt")).read() if os.path.exists(os.path.join(src, "notes.txt")) else ""
meta = {
    "breaks_property": prop,
    "needs_to_manifest": notes.strip(),
    "confirmed": {
        "patch_applies_to_repo_head": True,
        "pinned_suite_72_passed_with_patch": o["tests_ok"],
        "demo_exit_code_unpatched": o["demo_clean_rc"],
        "demo_exit_code_patched": o["demo_patched_rc"],
    },
    "what_was_run": [
        "git -C /repo apply seeded/%s/patch.diff" % name,
        "tools/run_tests.sh",
        "cd /repo && PYTHONPATH=/repo /venv/bin/python seeded/%s/demo.py" % name,
    ] + ["./check %s --tier quick" % p for p in [prop] + others] + ["git -C /repo checkout -- ."],
    "detected_by": {p: {"exit": c["rc"], "wall_s": c["wall"], "first": c["lines"][:1]}
                    for p, c in o["checks"].items()},
    "origin": "independent sub-agent given only the property text and a scratch worktree",
}
if scratch:
    meta["what_was_run"] = [
        "git worktree add --detach /tmp/seedkeep_wt HEAD   (scratch worktree of /repo's HEAD; a "
        "background validation run was reading /repo at the time)",
        "git -C /tmp/seedkeep_wt apply seeded/%s/patch.diff" % name,
        "tools/run_tests.sh /tmp/seedkeep_wt",
        "cd /tmp/seedkeep_wt && PYTHONPATH=/tmp/seedkeep_wt /venv/bin/python seeded/%s/demo.py" % name,
    ] + ["VERIF_REPO=/tmp/seedkeep_wt ./check %s --tier quick" % p for p in [prop] + others] \
        + ["git worktree remove --force /tmp/seedkeep_wt"]
    meta["confirmed"]["patch_applies_to_repo_head"] = True
if same:
    meta["origin"] = old_meta.get("origin", meta["origin"])
    meta["rebased"] = ("patch.diff was re-based on the current tree after later fix: commits "
                       "changed its context lines (same semantic change); re-confirmed")
    if old_meta.get("detected_by"):
        meta["first_detected_by"] = old_meta.get("first_detected_by", old_meta["detected_by"])
json.dump(meta, open(os.path.join(dst, "meta.json"), "w"), indent=1)
print(name, "confirmed" if ok else "NOT CONFIRMED", {p: c["rc"] for p, c in o["checks"].items()})
