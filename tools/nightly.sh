#!/bin/sh
# long background validation on the unchanged tree: seed regression needs /repo patched, so it is NOT part of this
cd "$(dirname "$0")/.." || exit 2
tools/soak.sh 1 24 quick
tools/thorough_all.sh
