#!/usr/bin/env python3
"""Print one digest line per seeded run of every engine (used by selftest.py)."""
import json
import os
import re
import sys

HERE = os.path.dirname(os.path.dirname(os.path.abspath(__file__)))
sys.path.insert(0, HERE)

from simkit import rng as R  # noqa: E402
from simkit.world import import_nutree  # noqa: E402


def main():
    n = int(sys.argv[1]) if len(sys.argv) > 1 else 50
    seed = int(os.environ.get("VERIF_SEED", "0"))
    nt = import_nutree()
    from simkit.checkmain import all_open_patterns
    from simkit.runner import history_run

    avoid = [re.compile(x) for x in all_open_patterns()[1]]
    for prop in ("C01", "C05", "C06", "C08", "C13"):
        for i in range(n):
            r = history_run(seed, prop, i, "quick", nt=nt, avoid=avoid)
            print("history", prop, i, r.digest, len(r.steps), len(r.states))
    from simkit.enum13 import base_history, fault_points

    for i in range(max(5, n // 5)):
        rec, counts, steps, viols = base_history(seed, i, "quick", avoid, nt)
        print("enum", i, R.digest((steps, fault_points(rec, counts))))
    from simkit.c18 import c18_run

    for i in range(n):
        r = c18_run(seed, i, "quick", nt, avoid=avoid)
        print("sched", i, r.digest, r.decisions, r.switches, r.commits, r.reads_done,
              len(r.violations))
    from simkit.peer import seeded_cases

    for i in range(n):
        cs = seeded_cases(seed, i, "quick", nt)
        print("peer", i, R.digest(json.dumps([c["doc"] for c in cs], sort_keys=True)))
    from simkit.fsim import fs_case

    for i in range(max(5, n // 5)):
        v, st, spec, s = fs_case(seed, i, "quick", nt)
        print("fs", i, R.digest((json.dumps(spec, sort_keys=True), st["listdir_calls"], len(v))))
    from simkit.prng import prng_case

    for i in range(n):
        v, st, desc, s = prng_case(seed, i, "quick", nt)
        print("prng", i, R.digest((json.dumps(desc, sort_keys=True), st["nodes"],
                                   sorted(st["prng_calls"].items()), len(v))))
    from simkit.deep import deep_case

    for i in range(max(5, n // 5)):
        v, st, desc, s = deep_case(seed, i, "quick", nt)
        print("deep", i, R.digest((json.dumps(desc, sort_keys=True), st["nodes"], st["probes"],
                                   len(v))))


main()
