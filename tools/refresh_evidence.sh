#!/bin/sh
# run every quick check on the current tree, then validate every evidence file
cd "$(dirname "$0")/.." || exit 2
bad=0
for p in C01 C02 C03 C04 C05 C06 C07 C08 C12 C13 C14 C18 C19 C20; do
  VERIF_SEED=${VERIF_SEED:-0} ./check $p --tier quick >/tmp/refresh_$p.log 2>&1; rc=$?
  if [ $rc -ne 0 ]; then bad=$((bad+1)); echo "$p rc=$rc"; grep -E "^(violation|VIOLATION|HARNESS)" /tmp/refresh_$p.log | head -3; fi
done
python3-vt - <<'PY' || bad=$((bad+1))
import glob, json, sys
import jsonschema
sch = json.load(open('/root/.vp/EVIDENCE.schema.json'))
man = json.load(open('MANIFEST.json'))
jsonschema.validate(man, json.load(open('/root/.vp/MANIFEST.schema.json')))
ok = True
for chk in man['checks']:
    f = chk['evidence_file']
    try:
        e = json.load(open(f))
        jsonschema.validate(e, sch)
        assert e['property_id'] == chk['property_id'] and e['level'] == chk['level_claimed']['category']
        c = e['coverage']
        print(f, 'valid: evaluations', c['evaluations'], 'distinct_nontrivial', c['distinct_nontrivial'], 'samples', len(c['samples']))
    except Exception as ex:
        ok = False
        print(f, 'INVALID', type(ex).__name__, str(ex)[:200])
sys.exit(0 if ok else 1)
PY
echo "refresh_evidence: bad=$bad"
exit $bad
