#!/usr/bin/env python3
"""Replay every repaired finding (must NOT reproduce) and every open one (must reproduce)."""
import glob
import json
import os
import subprocess
import sys

VERIF = os.path.dirname(os.path.dirname(os.path.abspath(__file__)))
bad = 0
for f in sorted(glob.glob(os.path.join(VERIF, "findings", "fixed", "*.json"))):
    prop = os.path.basename(f).split("-")[1]
    r = subprocess.run([os.path.join(VERIF, "check"), prop, "--replay", f, "--quiet"],
                       capture_output=True, text=True)
    ok = r.returncode == 0
    bad += not ok
    print(("ok   " if ok else "BAD  ") + os.path.basename(f), "(not reproduced)" if ok else r.stdout[-200:])
kf = json.load(open(os.path.join(VERIF, "known_findings.json")))
for o in kf["open"]:
    r = subprocess.run([os.path.join(VERIF, "check"), o["property"], "--replay",
                        os.path.join(VERIF, o["replay"]), "--quiet"], capture_output=True, text=True)
    ok = r.returncode == 1
    bad += not ok
    print(("ok   " if ok else "BAD  ") + o["replay"], "(open finding reproduces)" if ok else "does not reproduce")
print("regress_fixed:", "all good" if not bad else f"{bad} problems")
sys.exit(1 if bad else 0)
