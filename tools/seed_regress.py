#!/usr/bin/env python3
"""Re-run every kept seeded defect against the current checks.
usage: tools/seed_regress.py [--seed N] [NAME...]   (REGRESS.json / REGRESS.seedN.json only for full runs)

Each patch is applied to a scratch git worktree of /repo's HEAD under /tmp (removed
afterwards) and the check is pointed at it (VERIF_REPO), with its evidence going to a
scratch directory: /repo's working tree and the committed evidence stay untouched.
(tools/seed_keep.py - the confirmation of a new seed - applies the patch to /repo
itself and undoes it.)"""
import json
import os
import subprocess
import sys
import time

VERIF = os.path.dirname(os.path.dirname(os.path.abspath(__file__)))


def sh(cmd, **kw):
    return subprocess.run(cmd, shell=True, capture_output=True, text=True, **kw)


def main():
    args = sys.argv[1:]
    base_seed = "0"
    if "--seed" in args:
        i = args.index("--seed")
        base_seed = args[i + 1]
        del args[i:i + 2]
    names = [a for a in args if not a.startswith("--")]
    tier = "quick"
    root = os.path.join(VERIF, "seeded")
    if sh("git -C /repo status --porcelain").stdout.strip():
        print("REPO DIRTY - abort")
        return 2
    wt = "/tmp/seedreg_wt"
    sh(f"git -C /repo worktree remove --force {wt}; rm -rf {wt}")
    if sh(f"git -C /repo worktree add --detach {wt} HEAD").returncode != 0:
        print("cannot create scratch worktree")
        return 2
    rows = []
    for name in sorted(os.listdir(root)):
        d = os.path.join(root, name)
        if not os.path.isdir(d) or (names and name not in names):
            continue
        meta = json.load(open(os.path.join(d, "meta.json")))
        prop = meta["breaks_property"]
        if sh(f"git -C {wt} apply {d}/patch.diff").returncode != 0:
            rows.append((name, prop, "PATCH-FAILS", 0))
            print(*rows[-1], flush=True)
            continue
        try:
            t0 = time.time()
            r = sh(f"cd {VERIF} && VERIF_SEED={base_seed} VERIF_REPO={wt} "
                   f"VERIF_EVIDENCE_DIR=/tmp/seedreg_ev "
                   f"./check {prop} --tier {tier}", timeout=3600)
            rows.append((name, prop, {0: "MISSED", 1: "caught", 2: "HARNESS-ERROR"}.get(
                r.returncode, str(r.returncode)), round(time.time() - t0, 1)))
        finally:
            sh(f"git -C {wt} checkout -- . && git -C {wt} clean -fdq")
        print(*rows[-1], flush=True)
    sh(f"git -C /repo worktree remove --force {wt}; rm -rf {wt} /tmp/seedreg_ev")
    missed = [r for r in rows if r[2] != "caught"]
    print(f"{len(rows) - len(missed)}/{len(rows)} caught; not caught: {[r[0] for r in missed]}")
    if not names:
        out = "REGRESS.json" if base_seed == "0" else f"REGRESS.seed{base_seed}.json"
        with open(os.path.join(root, out), "w") as f:
            json.dump({"tier": tier, "base_seed": int(base_seed), "rows": rows}, f, indent=1)
    return 0 if not missed else 1


sys.exit(main())
