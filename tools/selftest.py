#!/usr/bin/env python3
"""Self-tests of the machinery (determinism; see DESIGN.md 2.9).  --quick: smoke."""
import os
import subprocess
import sys

HERE = os.path.dirname(os.path.dirname(os.path.abspath(__file__)))
sys.path.insert(0, HERE)


def digests(hashseed, n, prop="C04"):
    code = (
        "import sys; sys.path.insert(0, %r)\n"
        "from simkit.runner import history_run\n"
        "from simkit.world import import_nutree\n"
        "nt = import_nutree()\n"
        "for i in range(%d):\n"
        "    r = history_run(0, %r, i, 'quick', nt=nt)\n"
        "    print(i, r.digest, len(r.steps))\n" % (HERE, n, prop)
    )
    env = dict(os.environ, PYTHONHASHSEED=str(hashseed))
    py = "/venv/bin/python" if os.path.exists("/venv/bin/python") else sys.executable
    return subprocess.run([py, "-c", code], env=env, capture_output=True, text=True,
                          timeout=600).stdout


def main():
    n = 30 if "--quick" in sys.argv else 300
    a = digests(0, n)
    b = digests(0, n)
    if not a or a != b:
        print("SELFTEST FAILED: same seed, same hash seed, different digests")
        return 1
    print(f"selftest ok: {n} runs twice, identical digests")
    return 0


if __name__ == "__main__":
    sys.exit(main())
