#!/usr/bin/env python3
"""Self-tests of the machinery (DESIGN.md 2.9).

determinism: every engine's run digests must be identical
  * twice under PYTHONHASHSEED=0 (fresh interpreters),
  * under PYTHONHASHSEED=1 and 2 (nothing may depend on str hashes),
  * and a whole check must give the same counts with 2 and with 16 workers.
--quick: 30 runs per engine (part of MANIFEST.setup_cmd); default 300.
"""
import json
import os
import subprocess
import sys

HERE = os.path.dirname(os.path.dirname(os.path.abspath(__file__)))
PY = "/venv/bin/python" if os.path.exists("/venv/bin/python") else sys.executable


def digests(hashseed, n):
    env = dict(os.environ, PYTHONHASHSEED=str(hashseed), PYTHONDONTWRITEBYTECODE="1")
    p = subprocess.run([PY, os.path.join(HERE, "tools", "digests.py"), str(n)], env=env,
                       capture_output=True, text=True, timeout=3600)
    if p.returncode != 0:
        print(p.stderr[-2000:])
        raise SystemExit("SELFTEST FAILED: digests.py crashed")
    return p.stdout


def check_counts(prop, workers, runs):
    env = dict(os.environ, PYTHONHASHSEED="0", VERIF_WORKERS=str(workers))
    subprocess.run([os.path.join(HERE, "check"), prop, "--runs", str(runs), "--quiet"], env=env,
                   capture_output=True, text=True, timeout=3600)
    with open(os.path.join(HERE, "evidence", f"{prop}.json")) as f:
        c = json.load(f)["coverage"]
    return {k: c.get(k) for k in ("evaluations", "distinct_nontrivial", "steps_total",
                                  "distinct_transitions", "ops_by_kind_outcome", "fault_fired",
                                  "scheduler_decisions", "distinct_schedules", "commits")}


def main():
    quick = "--quick" in sys.argv
    n = 30 if quick else 300
    a = digests(0, n)
    b = digests(0, n)
    if not a or a != b:
        print("SELFTEST FAILED: same seed and hash seed, different digests")
        return 1
    lines = len(a.splitlines())
    if not quick:
        for hs in (1, 2):
            c = digests(hs, n)
            if c != a:
                la, lc = a.splitlines(), c.splitlines()
                diff = [(x, y) for x, y in zip(la, lc) if x != y][:5]
                print(f"SELFTEST FAILED: digests depend on PYTHONHASHSEED ({hs}):", diff)
                return 1
        saved = {}
        for prop, runs in (("C01", 1500), ("C18", 600), ("C13", 600)):
            path = os.path.join(HERE, "evidence", f"{prop}.json")
            saved[prop] = open(path).read() if os.path.exists(path) else None
            c2 = check_counts(prop, 2, runs)
            c16 = check_counts(prop, 16, runs)
            if c2 != c16:
                print(f"SELFTEST FAILED: {prop} differs between 2 and 16 workers", c2, c16)
                return 1
        print("worker-count independence ok (C01, C18, C13)")
    print(f"selftest ok: {lines} run digests, twice"
          + ("" if quick else ", and under PYTHONHASHSEED 1 and 2"))
    return 0


if __name__ == "__main__":
    sys.exit(main())
