#!/bin/sh
# run the pinned suite, print pass/fail counts; exit 1 on any failure
# usage: tools/run_tests.sh [REPO_DIR]   (default /repo; a scratch worktree for tools)
R=${1:-/repo}
cd "$R" && PYTHONPATH="$R" /venv/bin/python -m pytest -q -p no:cacheprovider --timeout=900 --junitxml=/tmp/junit.$$.xml -o addopts="" >/tmp/pytest.$$.out 2>&1
JUNIT=/tmp/junit.$$.xml python3 - <<'PY'
import sys
import xml.etree.ElementTree as ET
import os
r=ET.parse(os.environ['JUNIT']).getroot()
ts=r if r.tag=='testsuite' else r[0]
d={k:int(ts.get(k)) for k in ('tests','failures','errors','skipped')}
print(d)
bad=0
for tc in ts.iter('testcase'):
    for ch in tc:
        if ch.tag in ('failure','error'): print('FAIL', tc.get('classname'), tc.get('name')); bad+=1
passed=d['tests']-d['failures']-d['errors']-d['skipped']
if bad or passed != 72: sys.exit(1)
PY
rc=$?
rm -f /tmp/junit.$$.xml /tmp/pytest.$$.out
exit $rc
