#!/usr/bin/env python3
"""Sensitivity of the checks to every repaired defect: revert each `fix:` commit
on a scratch worktree of /repo's HEAD and run the quick check of the property the
fix is recorded under (known_findings.json) against it - it must exit 1.

usage: tools/revert_fixes.py [COMMIT...]     (never touches /repo's working tree)
"""
import json
import os
import re
import subprocess
import sys
import time

VERIF = os.path.dirname(os.path.dirname(os.path.abspath(__file__)))
WT = "/tmp/revert_wt"


def sh(cmd, **kw):
    return subprocess.run(cmd, shell=True, capture_output=True, text=True, **kw)


def main():
    only = sys.argv[1:]
    kf = json.load(open(os.path.join(VERIF, "known_findings.json")))
    rows = []
    todo = []
    for line in kf["fixed"]:
        m = re.match(r"fixed: property=(C\d+) ([0-9a-f]{7,}) (.*)", line)
        if not m:
            continue
        prop, commit, what = m.groups()
        if only and commit not in only:
            continue
        todo.append((prop, commit, what))
    for prop, commit, what in todo:
        sh(f"git -C /repo worktree remove --force {WT}; rm -rf {WT}")
        if sh(f"git -C /repo worktree add --detach {WT} HEAD").returncode != 0:
            print("cannot create worktree")
            return 2
        try:
            r = sh(f"git -C {WT} revert --no-commit {commit}")
            if r.returncode != 0:
                rows.append((commit, prop, "REVERT-CONFLICT", 0, what))
                continue
            t0 = time.time()
            r = sh(f"cd {VERIF} && VERIF_REPO={WT} VERIF_EVIDENCE_DIR=/tmp/revert_ev "
                   f"./check {prop} --tier quick", timeout=3600)
            sig = ""
            for ln in r.stdout.splitlines():
                if ln.startswith("violation"):
                    sig = ln[:150]
                    break
            rows.append((commit, prop, {0: "MISSED", 1: "caught", 2: "HARNESS-ERROR"}.get(
                r.returncode, str(r.returncode)), round(time.time() - t0, 1), sig or what[:100]))
        finally:
            sh(f"git -C /repo worktree remove --force {WT}; rm -rf {WT} /tmp/revert_ev")
        print(*rows[-1], flush=True)
    bad = [r for r in rows if r[2] not in ("caught", "REVERT-CONFLICT")]
    print(f"revert_fixes: {len(rows)} reverts, {sum(r[2] == 'caught' for r in rows)} caught, "
          f"{sum(r[2] == 'REVERT-CONFLICT' for r in rows)} not revertible on HEAD, {len(bad)} missed")
    return 1 if bad else 0


sys.exit(main())
