#!/usr/bin/env python3
"""Write seeded/SUMMARY.md from the meta.json files (+ REGRESS.json if present)."""
import json
import os

VERIF = os.path.dirname(os.path.dirname(os.path.abspath(__file__)))
root = os.path.join(VERIF, "seeded")
reg = {}
p = os.path.join(root, "REGRESS.json")
if os.path.exists(p):
    reg = {r[0]: r for r in json.load(open(p))["rows"]}
lines = ["# Seeded defects (independent sub-agents; see DESIGN.md section 11)", "",
         "| seed | breaks | needs to manifest (agent's note, first line) | first detection | "
         "latest regression (quick tier) |", "|---|---|---|---|---|"]
for name in sorted(os.listdir(root)):
    d = os.path.join(root, name)
    if not os.path.isdir(d):
        continue
    m = json.load(open(os.path.join(d, "meta.json")))
    note = (m.get("needs_to_manifest") or "").strip().splitlines()
    note = " ".join(note[:2])[:220].replace("|", "/")
    det = ", ".join(f"{k}: exit {v['exit']}" for k, v in m.get("detected_by", {}).items())
    r = reg.get(name)
    lines.append(f"| {name} | {m['breaks_property']} | {note} | {det} | "
                 f"{r[2] + ' (' + str(r[3]) + ' s)' if r else '-'} |")
open(os.path.join(root, "SUMMARY.md"), "w").write("\n".join(lines) + "\n")
print("wrote", len(lines) - 5, "rows")
