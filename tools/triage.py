#!/usr/bin/env python3
"""Group violations of seeded runs by signature and minimise one example each.

usage: tools/triage.py PROP [RUNS] [--tier quick] [--out DIR]
"""
import collections
import json
import os
import sys

HERE = os.path.dirname(os.path.dirname(os.path.abspath(__file__)))
sys.path.insert(0, HERE)
from simkit import checkmain  # noqa: E402

checkmain.reexec_pinned()

from simkit.runner import history_run  # noqa: E402
from simkit.shrink import minimise  # noqa: E402
from simkit.world import import_nutree  # noqa: E402


def compact(op):
    o = {k: v for k, v in op.items() if k not in ("id",)}
    return f"#{op['id']} " + json.dumps(o, separators=(",", ":"))


def main():
    prop = sys.argv[1]
    runs = int(sys.argv[2]) if len(sys.argv) > 2 and sys.argv[2].isdigit() else 1000
    out = "/tmp/triage"
    if "--out" in sys.argv:
        out = sys.argv[sys.argv.index("--out") + 1]
    engine = "history"
    os.makedirs(out, exist_ok=True)
    nt = import_nutree()
    first = {}
    count = collections.Counter()
    import re
    from checks import SPECS
    from simkit.checkmain import all_open_patterns
    avoid = []
    if "--avoid" in sys.argv:
        avoid = [re.compile(x) for x in all_open_patterns()[1]]
    ov = SPECS.get(prop, {}).get("cfg_overrides")
    for i in range(runs):
        r = history_run(0, prop, i, "quick", nt=nt, engine=engine, avoid=avoid, cfg_overrides=ov)
        for (step, p, c, t, d) in r.violations:
            sig = (p, c, t)
            count[sig] += 1
            if sig not in first:
                first[sig] = (r.record, d)
    only = None
    if "--only" in sys.argv:
        only = sys.argv[sys.argv.index("--only") + 1]
    for sig, n in sorted(count.items(), key=lambda x: (x[0][0], -x[1])):
        if only and only not in "/".join(sig):
            continue
        record, d = first[sig]
        rec = minimise(record, sig, nt=nt)
        name = "_".join(sig).replace("/", "-").replace("+", "-")[:120]
        with open(os.path.join(out, name + ".json"), "w") as f:
            rec["signature"] = list(sig)
            rec["detail"] = d
            json.dump(rec, f, indent=1)
        print(f"== {n:4d} x {'/'.join(sig)}   slots={rec['cfg']['slots']}")
        for op in rec["ops"]:
            print("      ", compact(op))
        print("       ->", d[:300])


main()
