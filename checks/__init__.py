"""Per property specifications (profile, budgets, level, texts)."""

ASSUME_COMMON = [
    "CPython 3.12 (/venv/bin/python), json, zipfile, threading primitives",
    "reference model simkit/model.py + contracts simkit/ops.py, written from the documentation",
    "user data objects have stable __hash__/__eq__",
    "behaviour the documentation leaves open is excluded from generation (coverage.excluded_arg_classes)",
    "sampling: a clean batch is evidence, not proof",
]

H = "simkit.check_history"

SPECS = {
    "C01": {
        "driver": H, "level": "exploration",
        "runs": {"quick": 4000, "thorough": 200000},
        "rule": "seeded histories (5-40 ops quick / up to 200 thorough) of the full mutation "
                "alphabet with declared-invalid arguments and callback faults on 1-2 trees; "
                "after every step the well-formedness predicates are evaluated through the "
                "public API by identity. A run is non-trivial if it has >= 3 successful "
                "mutations and at least one rare-condition probe fired; distinct = distinct "
                "digest of (steps, outcomes, triggers).",
        "probes": ["move_into_descendant_refused", "move_same_parent", "remove_keep_children",
                   "remove_with_clones_group", "remove_with_clones_nested",
                   "add_before_not_child_refused", "filter_skip_self", "callback_fault_fired"],
        "assumptions": ASSUME_COMMON,
    },
    "C02": {
        "driver": H, "level": "exploration",
        "runs": {"quick": 4000, "thorough": 200000},
        "rule": "seeded clone-heavy histories (small label alphabets, set_data on single nodes "
                "and groups, merges, removes, filter) over all data flavours; after every step "
                "every lookup and clone query is compared with the carriers found by walking "
                "the real tree, for every id/data present or absent. Non-trivial: >= 3 "
                "successful mutations and a probe fired; distinct by run digest.",
        "probes": ["set_data_clone_single", "set_data_with_clones", "set_data_merge_groups",
                   "remove_with_clones_group", "filter_select", "callback_fault_fired"],
        "assumptions": ASSUME_COMMON,
    },
    "C03": {
        "driver": H, "level": "exploration",
        "runs": {"quick": 4000, "thorough": 200000},
        "rule": "seeded histories with collision steering (the model proposes arguments that "
                "would create a duplicate sibling by add/copy/move/un-nest/set_data); invariant "
                "after every step + every steered collision must raise UniqueConstraintError. "
                "Non-trivial: >= 3 successful mutations and a probe fired; distinct by run digest.",
        "probes": ["add_collision_refused", "move_duplicate_refused",
                   "remove_keep_children_collision_refused", "set_data_collision_refused"],
        "assumptions": ASSUME_COMMON,
        "rebuild_mod": "simkit.peer",
        "extra_blocks": [{"engine": "peer", "mod": "simkit.peer", "fn": "peer_block",
                          "runs": {"quick": 300, "thorough": 10000}}],
    },
    "C04": {
        "driver": H, "level": "exploration",
        "runs": {"quick": 4000, "thorough": 200000},
        "rule": "seeded histories of documented-valid operations; after every step the full "
                "observable state (identity, data identity, data_id, kind, meta, parent, order) "
                "must equal the reference model's. Non-trivial: >= 3 successful mutations and a "
                "probe fired; distinct by run digest.",
        "probes": ["move_same_parent", "remove_keep_children", "sort_deep",
                   "add_node_sibling_of_target", "set_data_with_clones"],
        "assumptions": ASSUME_COMMON,
    },
    "C05": {
        "driver": H, "level": "exploration",
        "runs": {"quick": 3000, "thorough": 100000},
        "rule": "restart steps (save -> drop every live object -> load -> continue the history on "
                "the loaded tree) at random points of seeded histories under a swarm of storage "
                "options (key_map x value_map x compression x path/stream x mapper style x user "
                "meta); the loaded tree is compared lock-step with the model projected through "
                "persistence (class, shape, order, data as rebuilt, kinds, data_ids, clone "
                "partition, file_meta). Non-trivial: >= 3 successful mutations and a restart "
                "probe fired; distinct by run digest.",
        "probes": ["restart_file", "restart_clone_below_sibling"],
        "assumptions": ASSUME_COMMON,
    },
    "C12": {
        "driver": H, "level": "exploration",
        "runs": {"quick": 3000, "thorough": 100000},
        "rule": "writing side: at every restart step the bytes nutree wrote are decoded by an "
                "independent reference codec of the documented layout and compared with the "
                "model (header, pre-order, 1-based parent positions, clone references, key/value "
                "shortening). Reading side: see coverage.reading_side. Non-trivial: >= 3 "
                "successful mutations and a restart probe fired.",
        "probes": ["restart_file"],
        "assumptions": ASSUME_COMMON,
        "rebuild_mod": "simkit.peer",
        "extra_blocks": [{"engine": "peer", "mod": "simkit.peer", "fn": "peer_block",
                          "runs": {"quick": 600, "thorough": 20000}}],
    },
    "C14": {
        "driver": H, "level": "exploration",
        "runs": {"quick": 3000, "thorough": 100000},
        "rule": "restart steps through the dict form (to_dict_list -> optional JSON dump/load -> "
                "from_dict -> continue) inside seeded histories of untyped trees; the structure "
                "must mirror the model and the rebuilt tree must equal the model projected "
                "(shape, order, data, custom ids, clone partition). Mapper pairs: in place / new "
                "dict styles, and a pair that keeps the id under its own key and hands it back "
                "by setting item['data_id'].",
        "probes": ["restart_dict"],
        "assumptions": ASSUME_COMMON,
        "cfg_overrides": {"restart_via": "dict"},
    },
    "C06": {
        "driver": H, "level": "exploration",
        "runs": {"quick": 3000, "thorough": 100000},
        "rule": "read steps on states reached by seeded histories: every iteration method from "
                "tree or node start (add_self on/off) compared with the model order; visit() "
                "with a simulator-owned callback that returns or raises a skip/stop signal in "
                "every documented spelling at chosen nodes (callback sequence, nothing after "
                "stop, carried value); RANDOM_ORDER with the PRNG bound to a seeded SimRandom. "
                "Extra block DeepSim (coverage.deep): the non-recursive traversals (level-order "
                "family, visit(LEVEL_ORDER) with skip/stop, UNORDERED) on seeded spines of up to "
                "recursion limit + 700 levels against an iterative model. "
                "Non-trivial: >= 3 successful mutations and a traversal probe fired.",
        "probes": ["visit_skip", "visit_stop", "iter_zigzag", "iter_random", "deep_beyond_limit"],
        "assumptions": ASSUME_COMMON,
        "rebuild_mod": "simkit.deep",
        # the non-recursive traversals on branches deeper than the recursion limit
        # (the history engine's trees stay <= ~150 deep); coverage.deep in the evidence
        "extra_blocks": [{"engine": "deep", "mod": "simkit.deep", "fn": "deep_block",
                          "runs": {"quick": 96, "thorough": 4000}, "block": 6}],
    },
    "C18": {
        "driver": "simkit.check_c18", "level": "exploration",
        "runs": {"quick": 3000, "thorough": 150000},
        "rule": "one shared tree (plain or typed), 1-2 writer threads mutating only inside "
                "`with tree:` (2+ mutations per critical section with pauses in between, "
                "sometimes a nested `with tree:` + snapshot), 1-3 reader threads calling save, "
                "copy, filtered, copy_to, to_dict_list, to_dotfile and `with tree:` itself; "
                "the seeded scheduler decides every interleaving at lock operations, pauses and "
                "line events inside nutree. Oracles over the recorded history: snapshot "
                "linearizability against committed states, no spurious exception, mutual "
                "exclusion, no deadlock (re-entrancy), no lock leak after callback/stream "
                "faults, bounded liveness once writers are done. Non-trivial: >= 1 commit, >= 1 "
                "snapshot op and a snapshot was invoked while a writer was mid critical section "
                "or blocked on the lock; distinct by digest of (schedule word, history).",
        "assumptions": [],
    },
    "C19": {
        "driver": H, "level": "exploration",
        "block_mod": "simkit.fsim", "block_fn": "fs_block", "rebuild_mod": "simkit.fsim",
        "runs": {"quick": 300, "thorough": 100000},
        "rule": "seeded directory trees (nesting <= 4, empty folders, sort-sensitive and unicode "
                "names, sizes 0..10 kB, fractional mtimes) materialised in a scratch directory "
                "and scanned with sort on/off under 4 seeded permutations of os.listdir / "
                "os.scandir each; the tree must mirror the directory, sort=True must list files "
                "then folders name-sorted and be independent of the enumeration order; save + "
                "FileSystemTree.load preserves it. Non-trivial: >= 3 entries; distinct by digest "
                "of the directory specification.",
        "probes": [],
        "assumptions": ["CPython 3.12 (Path.iterdir -> os.listdir); real file system for content, "
                        "enumeration order decided by the simulator (os.listdir/os.scandir wrapped)",
                        "name-sorted is accepted under plain str order or str.casefold order",
                        "entries vanishing mid-scan, permission errors and symlinks are outside the property",
                        "sampling: a clean batch is evidence, not proof"],
    },
    "C20": {
        "driver": H, "level": "exploration",
        "block_mod": "simkit.prng", "block_fn": "prng_block", "rebuild_mod": "simkit.prng",
        "runs": {"quick": 1500, "thorough": 2000000},
        "rule": "seeded structure definitions (relation DAGs of 1-4 types, fixed and randomized "
                "counts with and without probability, '*'/type/relation attribute merges, "
                "{idx}/{hier_idx} macros, Range (int/float), DateRange (date / JS stamp), Value, "
                "SparseBool and Sample (with counts) randomizers, alternative :factory) built for "
                "Tree and TypedTree while nutree.tree_generator.random is a seeded SimRandom, in "
                "60 % of the runs biased to range ends and to probability +-1e-12; structural "
                "oracle independent of the order of PRNG calls. Non-trivial: >= 2 nodes built; "
                "distinct by digest of (definition, class, mode).",
        "probes": [],
        "assumptions": ["the PRNG seen by nutree.tree_generator is the simulator's (module attribute rebound)",
                        "TextRandomizer/BlindTextRandomizer (fabulist's own RNG) are not exercised",
                        "integer ranges are accepted as [min, max] inclusive; {idx} is the 1-based "
                        "index among the siblings created by the same relation",
                        "sampling: a clean batch is evidence, not proof"],
    },
    "C07": {
        "driver": H, "level": "exploration",
        "runs": {"quick": 4000, "thorough": 200000},
        "rule": "seeded multi-tree histories in which nodes, branches and whole trees are "
                "copied between and within trees (shallow/deep, all positions) and both sides "
                "keep mutating; the source's observable state is compared before/after each "
                "copy, new nodes must be new objects bound lock-step to the model's copy "
                "(same data object, data_id, kind, order), afterwards both trees are compared "
                "with their own model after every step. Non-trivial: >= 3 successful mutations "
                "and a probe fired; distinct by run digest.",
        "probes": ["add_tree", "add_deep_node", "add_node_sibling_of_target", "copy_tree",
                   "copy_to", "copy_filtered"],
        "assumptions": ASSUME_COMMON,
    },
    "C08": {
        "driver": H, "level": "exploration",
        "runs": {"quick": 4000, "thorough": 200000},
        "rule": "seeded histories with in-place filter steps (and copy-form filters on the same "
                "state) under per-node verdict plans drawn from {True, False, None, SkipBranch, "
                "SkipBranch(and_self=False), SelectBranch, StopTraversal} x {returned, raised}; "
                "result and predicate call sequence are compared with the documented filter "
                "semantics. Non-trivial: >= 3 successful mutations and a probe fired.",
        "probes": ["filter_select", "filter_skip_self", "filter_stop", "copy_filtered"],
        "assumptions": ASSUME_COMMON,
    },
    "C13": {
        "driver": H, "level": "fault_enumeration",
        "runs": {"quick": 3000, "thorough": 150000},
        "extra_blocks": [{"engine": "enum", "mod": "simkit.enum13", "fn": "enum_block",
                          "runs": {"quick": 150, "thorough": 5000}}],
        "exhaustive_note": "fault positions k are enumerated completely for each sampled base "
                           "history (coverage.enum); base histories themselves are sampled",
        "rule": "part 1 (sampled): seeded histories in which operations with declared-invalid "
                "arguments and callback faults (k-th invocation of id hook / predicate / mapper / "
                "sort key / visitor / match / repr raises, k-th stream write fails) are ordinary "
                "steps; a refused op must leave every tree observably unchanged, an escaped "
                "callback fault must leave C01-C03 intact (read-only ops: unchanged). part 2 "
                "(enumerated): for each sampled fault-free base history (<= 25 steps) every "
                "(step, callback kind, k) fault point is replayed (coverage.enum). Non-trivial: "
                ">= 3 successful mutations and a probe fired / every enumerated replay is "
                "distinct by (base, fault point, step log).",
        "probes": ["add_before_not_child_refused", "move_into_descendant_refused",
                   "set_data_no_decision_refused", "del_ambiguous_refused",
                   "callback_fault_fired"],
        "assumptions": ASSUME_COMMON,
    },
}

_TB = ("Trusted: CPython 3.12, the reference model and contracts (simkit/model.py, simkit/ops.py) "
       "written from the documentation, stable __hash__/__eq__ of data objects. Sampling, not proof; "
       "argument classes the documentation leaves open are excluded (listed in the evidence file).")

MANIFEST_TEXT = {
    "C20": {"engine": "PrngSim", "design_ref": "DESIGN.md section 4 C20",
            "technique": "deterministic simulation: the library's PRNG is the simulator's (seeded, boundary-biased SimRandom), structural conformance oracle",
            "level_text": "Weaker fit (quantifier is inputs/configurations): the property is about "
                          "every random draw; the simulator owns the random source and steers it "
                          "to range ends and probability thresholds, which a single natural draw "
                          "never shows.",
            "level_note": "Trusted: the structural oracle in simkit/prng.py written from "
                          "ug_randomize.rst and the Randomizer docstrings."},
    "C19": {"engine": "FsSim", "design_ref": "DESIGN.md section 4 C19",
            "technique": "deterministic simulation: directory enumeration order (os.listdir/os.scandir) and stat values decided by the simulator on a real scratch directory",
            "level_text": "Weaker fit (quantifier is inputs/configurations): the one genuine source "
                          "of nondeterminism the property depends on is the order in which the OS "
                          "enumerates a directory; the simulator owns it and requires the sorted "
                          "result to be the same under every permutation, plus mirror and "
                          "save/load oracles.",
            "level_note": "Trusted: CPython pathlib/os, the scratch file system. Enumeration "
                          "order is permuted per directory from the seed."},
    "C05": {"engine": "StoreSim+HistorySim", "design_ref": "DESIGN.md section 4 C05",
            "technique": "deterministic simulation: restart fault (save, drop all live objects, load, continue) inside seeded histories under a swarm of storage options",
            "level_text": "The persistence boundary is a fault step of the history: only the "
                          "bytes survive. The loaded tree is compared lock-step with the model "
                          "projected through persistence and the history continues on it, so a "
                          "clone group that was not really re-registered is found by the "
                          "following steps. Storage options are swarm parameters.",
            "level_note": _TB + " Mappers are simulator-supplied inverse pairs (interning by "
                                "stored value); node metadata is not part of the property."},
    "C06": {"engine": "HistorySim", "design_ref": "DESIGN.md section 4 C06",
            "technique": "deterministic simulation: traversal callbacks interrupted (skip/stop, returned or raised) at chosen invocations on states reached by seeded histories; PRNG seam for RANDOM_ORDER",
            "level_text": "Weaker fit (quantifier is inputs): the simulator contributes the "
                          "interruption point of the callback, the PRNG seam and the odd states "
                          "long histories reach; order oracle from the reference model.",
            "level_note": _TB},
    "C12": {"engine": "StoreSim (reference peer)", "design_ref": "DESIGN.md section 4 C12",
            "technique": "deterministic simulation with an in-process fake peer: bytes written at restart steps are decoded by an independent codec of the documented layout; documents from the independent encoder are loaded",
            "level_text": "nutree talks to an independent implementation of its file format "
                          "instead of to itself, which is what catches a change made consistently "
                          "to writer and reader. Writing side at every restart step of seeded "
                          "histories, reading side on documents produced by the reference encoder, "
                          "the user guide's literal examples and mutilated headers.",
            "level_note": _TB + " The reference codec (simkit/store.py) is written from "
                                "docs/sphinx/ug_serialize.rst."},
    "C14": {"engine": "StoreSim+HistorySim", "design_ref": "DESIGN.md section 4 C14",
            "technique": "deterministic simulation: restart through the dict form (to_dict_list, optional JSON dump/load, from_dict) inside seeded histories",
            "level_text": "Weaker fit (quantifier is inputs): second restart path; the structure "
                          "must mirror the model and the rebuilt tree equals the model projected; "
                          "reached states include the empty and the cleared tree.",
            "level_note": _TB + " Untyped trees only (from_dict returns a plain Tree)."},
    "C18": {"engine": "SchedSim", "design_ref": "DESIGN.md sections 2.6 and 4 C18",
            "technique": "deterministic simulation: seeded thread schedules (baton-passed real threads, simulated RLock, settrace line pre-emption), snapshot linearizability over the recorded history",
            "level_text": "The property quantifies over schedules; the simulator decides every "
                          "interleaving of writer critical sections with snapshot operations and "
                          "checks each snapshot against the set of committed states in its "
                          "invoke/return window, plus mutual exclusion, re-entrancy/deadlock, "
                          "lock leak after faults and bounded liveness. Seeded search, not "
                          "exhaustive enumeration.",
            "level_note": "Trusted: CPython threads/semaphores used for baton passing, sys.settrace, "
                          "the SimRLock implementing the RLock interface. Pre-emption does not split "
                          "a single source line. Writers that mutate outside `with tree:` and "
                          "node-level copy()/filtered() are outside the property."},
    "C01": {"engine": "HistorySim", "design_ref": "DESIGN.md section 4 C01",
            "technique": "deterministic simulation: seeded operation/fault histories, invariant oracle after every step",
            "level_text": "Seeded search over mutation histories with refused operations and callback "
                          "faults; the well-formedness predicates of C01 are evaluated through the public "
                          "API by identity after every step on every live tree. Exploration is the right "
                          "level: the quantifier is over unbounded histories and corruption is history dependent.",
            "level_note": _TB},
    "C02": {"engine": "HistorySim", "design_ref": "DESIGN.md section 4 C02",
            "technique": "deterministic simulation: seeded histories, index oracle (lookups vs. tree walk) after every step",
            "level_text": "Seeded clone-heavy histories over all data flavours; after every step every "
                          "lookup/clone query is compared with the carriers found by walking the tree, for "
                          "ids and data present or absent, and every node's data_id with the rule.",
            "level_note": _TB},
    "C03": {"engine": "HistorySim", "design_ref": "DESIGN.md section 4 C03",
            "technique": "deterministic simulation: seeded histories with collision steering, invariant + refusal-class oracle",
            "level_text": "The model proposes arguments that would create a duplicate sibling by every "
                          "route (add, copy, move, un-nest, set_data/rename, load/from_dict in the restart "
                          "checks); the sibling-uniqueness invariant is checked after every step and every "
                          "steered collision must raise UniqueConstraintError and leave the state unchanged.",
            "level_note": _TB},
    "C04": {"engine": "HistorySim", "design_ref": "DESIGN.md section 4 C04",
            "technique": "deterministic simulation: step-by-step refinement against an executable reference model",
            "level_text": "After every step of a seeded history the full observable state (node identity, "
                          "data identity, data_id, kind, meta, parent, sibling order) must equal the "
                          "reference model's. No exhaustive small-scope enumeration (that would be model "
                          "checking); the distribution is biased to small trees.",
            "level_note": _TB},
    "C07": {"engine": "HistorySim", "design_ref": "DESIGN.md section 4 C07",
            "technique": "deterministic simulation: multi-tree histories, source before/after snapshot + lock-step copy binding",
            "level_text": "Copies between and within trees inside seeded histories; the source's state is "
                          "compared before/after, new nodes must be new objects equal to the model's copy, "
                          "and both sides keep mutating under their own model afterwards.",
            "level_note": _TB},
    "C08": {"engine": "HistorySim", "design_ref": "DESIGN.md section 4 C08",
            "technique": "deterministic simulation: filter as state transition with per-node verdict/fault plan vs. model",
            "level_text": "Weaker fit (quantifier is inputs): the simulator contributes the per-node "
                          "verdict plan (returned or raised control signals at chosen invocations) and the "
                          "states reached by long histories; result and predicate call sequence are "
                          "compared with the documented semantics, copy form vs. in-place form.",
            "level_note": _TB},
    "C13": {"engine": "HistorySim", "design_ref": "DESIGN.md section 4 C13",
            "technique": "deterministic simulation with fault enumeration: every k-th callback invocation of sampled histories raises",
            "level_text": "Declared-invalid operations inside histories must raise and leave every tree "
                          "observably unchanged; for sampled base histories every (step, callback kind, "
                          "k-th invocation) fault is replayed deterministically (enumeration of fault "
                          "positions, sampling of histories).",
            "level_note": _TB},
}

NOT_APPLICABLE = [
    {"property_id": "C09", "reason": "search results are a pure function of (tree, pattern/predicate, limit, key): no schedule, fault, storage, PRNG or state transition is involved; simulation would only be input generation under another name (its index-lookup half is exercised under C02 without being claimed)"},
    {"property_id": "C10", "reason": "relationship queries are pure read-only functions of one tree state; nothing for a simulator to schedule or fail"},
    {"property_id": "C11", "reason": "diff() is a pure function of two trees and two flags; neither input is shared with a thread or crosses a seam"},
    {"property_id": "C15", "reason": "kind-aware queries are pure read-only functions of one typed-tree state"},
    {"property_id": "C16", "reason": "format() is a pure function of (tree, style, title, repr, join)"},
    {"property_id": "C17", "reason": "DOT/Mermaid/RDF exports are pure functions of (tree, options); the only seams they touch (tree lock in to_dotfile, stream writes) are decided under C18/C13"},
]
# properties whose checks are planned but not built yet are listed here until they exist
for _pid in ("C05", "C06", "C12", "C14", "C18", "C19", "C20"):
    if _pid not in SPECS:
        NOT_APPLICABLE.append({"property_id": _pid,
                               "reason": "check not built yet in this snapshot (planned, see DESIGN.md section 4)"})
