"""Per property specifications (profile, budgets, level, texts)."""

ASSUME_COMMON = [
    "CPython 3.12 (/venv/bin/python), json, zipfile, threading primitives",
    "reference model simkit/model.py + contracts simkit/ops.py, written from the documentation",
    "user data objects have stable __hash__/__eq__",
    "behaviour the documentation leaves open is excluded from generation (coverage.excluded_arg_classes)",
    "sampling: a clean batch is evidence, not proof",
]

H = "simkit.check_history"

SPECS = {
    "C01": {
        "driver": H, "level": "exploration",
        "runs": {"quick": 4000, "thorough": 400000},
        "rule": "seeded histories (5-40 ops quick / up to 200 thorough) of the full mutation "
                "alphabet with declared-invalid arguments and callback faults on 1-2 trees; "
                "after every step the well-formedness predicates are evaluated through the "
                "public API by identity. A run is non-trivial if it has >= 3 successful "
                "mutations and at least one rare-condition probe fired; distinct = distinct "
                "digest of (steps, outcomes, triggers).",
        "probes": ["move_into_descendant_refused", "move_same_parent", "remove_keep_children",
                   "remove_with_clones_group", "remove_with_clones_nested",
                   "add_before_not_child_refused", "filter_skip_self", "callback_fault_fired"],
        "assumptions": ASSUME_COMMON,
    },
    "C02": {
        "driver": H, "level": "exploration",
        "runs": {"quick": 4000, "thorough": 400000},
        "rule": "seeded clone-heavy histories (small label alphabets, set_data on single nodes "
                "and groups, merges, removes, filter) over all data flavours; after every step "
                "every lookup and clone query is compared with the carriers found by walking "
                "the real tree, for every id/data present or absent. Non-trivial: >= 3 "
                "successful mutations and a probe fired; distinct by run digest.",
        "probes": ["set_data_clone_single", "set_data_with_clones", "set_data_merge_groups",
                   "remove_with_clones_group", "filter_select", "callback_fault_fired"],
        "assumptions": ASSUME_COMMON,
    },
    "C03": {
        "driver": H, "level": "exploration",
        "runs": {"quick": 4000, "thorough": 400000},
        "rule": "seeded histories with collision steering (the model proposes arguments that "
                "would create a duplicate sibling by add/copy/move/un-nest/set_data); invariant "
                "after every step + every steered collision must raise UniqueConstraintError. "
                "Non-trivial: >= 3 successful mutations and a probe fired; distinct by run digest.",
        "probes": ["add_collision_refused", "move_duplicate_refused",
                   "remove_keep_children_collision_refused", "set_data_collision_refused"],
        "assumptions": ASSUME_COMMON,
    },
    "C04": {
        "driver": H, "level": "exploration",
        "runs": {"quick": 4000, "thorough": 400000},
        "rule": "seeded histories of documented-valid operations; after every step the full "
                "observable state (identity, data identity, data_id, kind, meta, parent, order) "
                "must equal the reference model's. Non-trivial: >= 3 successful mutations and a "
                "probe fired; distinct by run digest.",
        "probes": ["move_same_parent", "remove_keep_children", "sort_deep",
                   "add_node_sibling_of_target", "set_data_with_clones"],
        "assumptions": ASSUME_COMMON,
    },
    "C07": {
        "driver": H, "level": "exploration",
        "runs": {"quick": 4000, "thorough": 400000},
        "rule": "seeded multi-tree histories in which nodes, branches and whole trees are "
                "copied between and within trees (shallow/deep, all positions) and both sides "
                "keep mutating; the source's observable state is compared before/after each "
                "copy, new nodes must be new objects bound lock-step to the model's copy "
                "(same data object, data_id, kind, order), afterwards both trees are compared "
                "with their own model after every step. Non-trivial: >= 3 successful mutations "
                "and a probe fired; distinct by run digest.",
        "probes": ["add_tree", "add_deep_node", "add_node_sibling_of_target", "copy_tree",
                   "copy_to", "copy_filtered"],
        "assumptions": ASSUME_COMMON,
    },
    "C08": {
        "driver": H, "level": "exploration",
        "runs": {"quick": 4000, "thorough": 400000},
        "rule": "seeded histories with in-place filter steps (and copy-form filters on the same "
                "state) under per-node verdict plans drawn from {True, False, None, SkipBranch, "
                "SkipBranch(and_self=False), SelectBranch, StopTraversal} x {returned, raised}; "
                "result and predicate call sequence are compared with the documented filter "
                "semantics. Non-trivial: >= 3 successful mutations and a probe fired.",
        "probes": ["filter_select", "filter_skip_self", "filter_stop", "copy_filtered"],
        "assumptions": ASSUME_COMMON,
    },
    "C13": {
        "driver": H, "level": "fault_enumeration",
        "runs": {"quick": 4000, "thorough": 400000},
        "rule": "seeded histories with declared-invalid operations and callback faults",
        "probes": ["add_before_not_child_refused", "move_into_descendant_refused",
                   "set_data_no_decision_refused", "del_ambiguous_refused",
                   "callback_fault_fired"],
        "assumptions": ASSUME_COMMON,
    },
}
